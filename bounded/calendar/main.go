// Bounded validation of the assumed civil-calendar contract
// (/verif/contracts/external/time.spec) against the real package time with time.Local.
// This is a bounded stand-in (NOT a proof): every axiom is evaluated at every day
// boundary +-1s in [1970, 2100), at every month/year boundary, and at seeded interior
// points. Output: one JSON object.
package main

import (
	"encoding/json"
	"fmt"
	"math/rand"
	"os"
	"strconv"
	"time"
)

func calYear(s int64) int  { return time.Unix(s, 0).Year() }
func calMonth(s int64) int { return int(time.Unix(s, 0).Month()) }
func calDay(s int64) int   { return time.Unix(s, 0).Day() }
func calDate(y, m, d int) int64 {
	return time.Date(y, time.Month(m), d, 0, 0, 0, 0, time.Local).Unix()
}
func calDim(y, m int) int { return time.Date(y, time.Month(m)+1, 0, 0, 0, 0, 0, time.Local).Day() }
func calOK(s int64) bool  { return s >= 0 && s <= 4102444800 }
func dayStart(s int64) int64 {
	return calDate(calYear(s), calMonth(s), calDay(s))
}

type result struct {
	Points     int               `json:"points"`
	Checks     int               `json:"axiom_evaluations"`
	Failures   int               `json:"failures"`
	FirstFails map[string]string `json:"first_failures,omitempty"`
	Zone       string            `json:"zone"`
	From, To   int64
}

func main() {
	seed := int64(1)
	if v, err := strconv.ParseInt(os.Getenv("VERIF_SEED"), 10, 64); err == nil {
		seed = v
	}
	interior := 20000
	if os.Getenv("VERIF_TIER") == "thorough" {
		interior = 2000000
	}
	rng := rand.New(rand.NewSource(seed))
	res := &result{FirstFails: map[string]string{}, Zone: time.Local.String(), From: 0, To: 4102444800}
	fail := func(ax string, s int64) {
		res.Failures++
		if _, ok := res.FirstFails[ax]; !ok {
			res.FirstFails[ax] = fmt.Sprint(s)
		}
	}
	check := func(s int64) {
		if !calOK(s) {
			return
		}
		res.Points++
		y, m, d := calYear(s), calMonth(s), calDay(s)
		ds := dayStart(s)
		res.Checks += 9
		if !(m >= 1 && m <= 12 && d >= 1 && d <= calDim(y, m) && y >= 1970 && y <= 2100) {
			fail("cal_fields_range", s)
		}
		if dm := calDim(y, m); dm < 28 || dm > 31 {
			fail("cal_dim_range", s)
		}
		if !(ds <= s && s < ds+86400 && ds >= -86400) {
			fail("cal_day_contains", s)
		}
		for _, u := range []int64{ds, ds + 1, ds + 43200, ds + 86399} {
			if calOK(u) && (calYear(u) != y || calMonth(u) != m || calDay(u) != d) {
				fail("cal_day_constant", s)
			}
		}
		for _, dd := range []int{-3, 0, 1, d, d + 1, 31, 32, 40} {
			if calDate(y, m, dd) != calDate(y, m, 1)+86400*(int64(dd)-1) {
				fail("cal_date_linear_day", s)
			}
		}
		if calDate(y, m+1, 1) != calDate(y, m, 1)+86400*int64(calDim(y, m)) {
			fail("cal_date_next_month", s)
		}
		if cd := calDate(y, m, d); calOK(cd) && (calYear(cd) != y || calMonth(cd) != m || calDay(cd) != d) {
			fail("cal_date_inverse", s)
		}
		if calOK(s+86400) && dayStart(s+86400) != ds+86400 {
			fail("cal_day_aligned", s)
		}
		if calDate(y, 13, 1) != calDate(y+1, 1, 1) {
			fail("cal_date_year_wrap", s)
		}
		ms, me := calDate(y, m, 1), calDate(y, m+1, 1)
		for _, u := range []int64{ms, ms + 1, (ms + me) / 2, me - 1} {
			if calOK(u) && (calYear(u) != y || calMonth(u) != m) {
				fail("cal_month_constant", s)
			}
		}
		if ys := calDate(y, 1, 1); !(ys <= s && s < ys+31622400) {
			fail("cal_year_start_bound", s)
		}
		// inverse for every day of this month (only at month starts, to bound the cost)
		if d == 1 && s == ds {
			for dd := 1; dd <= calDim(y, m); dd++ {
				cd := calDate(y, m, dd)
				if calOK(cd) && (calYear(cd) != y || calMonth(cd) != m || calDay(cd) != dd) {
					fail("cal_date_inverse", cd)
				}
			}
		}
	}
	for s := int64(0); s <= 4102444800; s += 86400 {
		b := dayStart(s)
		for _, x := range []int64{b - 1, b, b + 1, b + 86399, b + 86400} {
			check(x)
		}
	}
	for i := 0; i < interior; i++ {
		check(rng.Int63n(4102444800))
	}
	json.NewEncoder(os.Stdout).Encode(res)
	if res.Failures > 0 {
		os.Exit(1)
	}
}
