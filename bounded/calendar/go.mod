module calendarcheck

go 1.22
