module dstzonescheck

go 1.22

require github.com/lindb/lindb v0.0.0

require (
	github.com/json-iterator/go v1.1.12 // indirect
	github.com/lindb/common v0.0.6 // indirect
	github.com/modern-go/concurrent v0.0.0-20180306012644-bacd9c7ef1dd // indirect
	github.com/modern-go/reflect2 v1.0.2 // indirect
)

replace github.com/lindb/lindb => /repo
