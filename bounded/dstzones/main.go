// Bounded check (NOT a proof) of the C13 statement for the real interval calculators of /repo in zones
// with daylight saving time. The deductive contracts of C13 assume a fixed-offset zone (the calendar
// axioms); the calendar of a DST zone cannot be brought within the verifier's reach, so this bounded
// run stands in for it: for the zones below, every day 1973..2037 whose local length is not 24 hours
// (and its two neighbours) is sampled every 5 minutes and, for the calculator kind given as argument,
//   (1) the family computed for the timestamp contains the timestamp,
//   (2) family start + slot*interval is within one interval below the timestamp
// are evaluated on the real functions. Usage: go run . day|month|year. Output: one JSON object; exit 1 on failure.
package main

import (
	"encoding/json"
	"fmt"
	"os"
	"time"

	"github.com/lindb/lindb/pkg/timeutil"
)

type result struct {
	Kind       string            `json:"kind"`
	Zones      []string          `json:"zones"`
	Days       int               `json:"transition_days_and_neighbours"`
	Points     int               `json:"timestamps"`
	Failures   int               `json:"failures"`
	FirstFails map[string]string `json:"first_failures,omitempty"`
}

func main() {
	kind := "month"
	if len(os.Args) > 1 {
		kind = os.Args[1]
	}
	interval := map[string]int64{"day": 10 * 1000, "month": 5 * 60 * 1000, "year": 3600 * 1000}[kind]
	if interval == 0 {
		fmt.Println("usage: dstzones day|month|year")
		os.Exit(2)
	}
	zones := []string{"America/New_York", "Europe/Berlin", "Australia/Sydney"}
	res := result{Kind: kind, Zones: zones, FirstFails: map[string]string{}}
	fail := func(class, detail string) {
		res.Failures++
		if _, ok := res.FirstFails[class]; !ok {
			res.FirstFails[class] = detail
		}
	}
	for _, zone := range zones {
		loc, err := time.LoadLocation(zone)
		if err != nil {
			fmt.Printf("{\"error\":\"zone %s not available: %v\"}\n", zone, err)
			os.Exit(2)
		}
		time.Local = loc
		calc := timeutil.Interval(interval).Calculator()
		for d := time.Date(1973, 1, 2, 0, 0, 0, 0, loc); d.Year() < 2038; d = d.AddDate(0, 0, 1) {
			next := d.AddDate(0, 0, 1)
			if next.Sub(d) == 24*time.Hour {
				continue
			}
			for _, day := range []time.Time{d.AddDate(0, 0, -1), d, next} {
				res.Days++
				end := day.AddDate(0, 0, 1)
				for ts := day; ts.Before(end); ts = ts.Add(5 * time.Minute) {
					res.Points++
					t := ts.UnixNano() / 1000000
					seg := calc.CalcSegmentTime(t)
					fam := calc.CalcFamily(t, seg)
					start := calc.CalcFamilyStartTime(seg, fam)
					fend := calc.CalcFamilyEndTime(start)
					if !(start <= t && t <= fend) {
						fail(kind+": the family does not contain the timestamp", fmt.Sprintf("%s %s: family [%d,%d] timestamp %d", zone, ts.Format(time.RFC3339), start, fend, t))
						continue
					}
					slot := calc.CalcSlot(t, start, interval)
					back := start + int64(slot)*interval
					if !(back <= t && t < back+interval) {
						fail(kind+": slot*interval added to the family start is not within one interval below the timestamp",
							fmt.Sprintf("%s %s: family start %d slot %d -> %d, timestamp %d (%.1f h apart)", zone, ts.Format(time.RFC3339), start, slot, back, t, float64(t-back)/3600000))
					}
				}
			}
		}
	}
	b, _ := json.Marshal(res)
	fmt.Println(string(b))
	if res.Failures > 0 {
		os.Exit(1)
	}
}
