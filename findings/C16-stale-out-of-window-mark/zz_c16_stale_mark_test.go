package metric

import (
	"bytes"
	"testing"

	"github.com/lindb/common/pkg/fasttime"
)

// A batch comes from a sync.Pool (NewBrokerBatchRows / Release, used by the flat and proto
// ingestion parsers and released by channelManager.Write). Batch 1 carries a row outside
// the write window, it is marked and dropped - correct. The batch object goes back to
// the pool. Batch 2 reuses it and carries only rows INSIDE the window: none of them may
// be dropped ("rows outside the accepted write window are dropped and nothing else is").
//
// Run (nothing is written into the repository):
//   cd /repo && echo '{"Replace":{"/repo/series/metric/zz_c16_stale_mark_test.go":"/verif/findings/C16-stale-out-of-window-mark/zz_c16_stale_mark_test.go"}}' > /tmp/ov.json &&
//   GOFLAGS=-mod=mod GOPROXY=off GOSUMDB=off go test -overlay /tmp/ov.json -vet=off -count=1 -timeout 60s -run TestVerifStaleOutOfWindowMark ./series/metric/
func TestVerifStaleOutOfWindowMark(t *testing.T) {
	now := fasttime.UnixMilliseconds()
	const hour = int64(3600 * 1000)

	// the pool may hand out any object; use one batch object explicitly, exactly as the pool would
	batch := newBrokerBatchRows()

	// first use: one row two days old, window is one hour behind / ahead
	if err := batch.TryAppend(func(row *BrokerRow) error { buildRow(row, now-48*hour); return nil }); err != nil {
		t.Fatal(err)
	}
	if evicted := batch.EvictOutOfTimeRange(hour, hour); evicted != 1 {
		t.Fatalf("first batch: expected the old row to be evicted, evicted=%d", evicted)
	}
	// Release(): back to the pool; NewBrokerBatchRows(): reset() on reuse
	batch.reset()

	// second use: one row with the current time
	if err := batch.TryAppend(func(row *BrokerRow) error { buildRow(row, now); return nil }); err != nil {
		t.Fatal(err)
	}
	if evicted := batch.EvictOutOfTimeRange(hour, hour); evicted != 0 {
		t.Fatalf("second batch: nothing is outside the window, evicted=%d", evicted)
	}
	row := &batch.Rows()[0]
	var buf bytes.Buffer
	n, _ := row.WriteTo(&buf)
	if row.IsOutOfTimeRange || row.Size() == 0 || n == 0 {
		m := row.Metric()
		t.Fatalf("a row inside the write window is dropped: IsOutOfTimeRange=%v Size=%d written=%d (timestamp %d, now %d)",
			row.IsOutOfTimeRange, row.Size(), n, m.Timestamp(), now)
	}
}
