package tsdb

import (
	"path/filepath"
	"sort"
	"testing"
	"time"

	"github.com/lindb/lindb/kv"
	"github.com/lindb/lindb/pkg/timeutil"
	"github.com/lindb/lindb/tsdb/tblstore/metricsdata"
)

// A database keeps a rollup interval of 5 minutes: interval type "month", one segment per month, one family per
// day. A query over [June 20 12:00, July 5 12:00] reaches the segment of July (intervalSegment.GetDataFamilies
// passes the whole query range to every segment whose base time lies in it). The families of July 1..5 hold data
// of the queried range and must be returned. segment.GetDataFamilies converts both ends of the query range to a
// family *of this segment* with CalcFamily(timestamp, baseTime), which for the month (and year) calculator is just
// the day of month (month of year) of the timestamp, whatever month it lies in: June 20 becomes "July 20", the
// window is [July 20, July 5], it is empty, and no family of July is returned.
//
// Run: /verif/findings/C13-family-lookup-across-segments/run.sh

type verifStubFamily struct {
	DataFamily // nil: only TimeRange/FamilyTime are used
	tr         timeutil.TimeRange
	ft         int64
}

func (f *verifStubFamily) TimeRange() timeutil.TimeRange { return f.tr }
func (f *verifStubFamily) FamilyTime() int64            { return f.ft }

func TestVerifFamilyLookupAcrossSegments(t *testing.T) {
	saved := newDataFamilyFunc
	defer func() { newDataFamilyFunc = saved }()
	newDataFamilyFunc = func(_ Shard, _ Segment, _ timeutil.Interval, tr timeutil.TimeRange, familyTime int64, _ kv.Family) DataFamily {
		return &verifStubFamily{tr: tr, ft: familyTime}
	}

	interval := timeutil.Interval(5 * 60 * 1000) // 5 minutes: interval type month
	if interval.Type() != timeutil.Month {
		t.Fatalf("unexpected interval type %v", interval.Type())
	}
	store, err := kv.GetStoreManager().CreateStore(filepath.Join(t.TempDir(), "month", "201907"), kv.DefaultStoreOption())
	if err != nil {
		t.Fatal(err)
	}
	defer func() { _ = kv.GetStoreManager().CloseStore(store.Name()) }()
	for _, day := range []string{"1", "3", "5", "20", "25"} {
		if _, err := store.CreateFamily(day, kv.FamilyOption{Merger: string(metricsdata.MetricDataMerger)}); err != nil {
			t.Fatal(err)
		}
	}
	ms := func(tm time.Time) int64 { return tm.UnixNano() / 1000000 }
	seg := &segment{
		kvStore:  store,
		baseTime: ms(time.Date(2019, time.July, 1, 0, 0, 0, 0, time.Local)),
		interval: interval,
		families: make(map[int]DataFamily),
	}
	query := timeutil.TimeRange{
		Start: ms(time.Date(2019, time.June, 20, 12, 0, 0, 0, time.Local)),
		End:   ms(time.Date(2019, time.July, 5, 12, 0, 0, 0, time.Local)),
	}
	var got []int
	for _, f := range seg.GetDataFamilies(query) {
		got = append(got, time.Unix(f.FamilyTime()/1000, 0).In(time.Local).Day())
	}
	sort.Ints(got)
	// the families of July whose day lies inside the query range
	want := []int{1, 3, 5}
	if len(got) != len(want) {
		t.Fatalf("query [June 20 12:00, July 5 12:00] on the July segment: families (days) returned %v, families holding data of the range %v", got, want)
	}
	for i := range want {
		if got[i] != want[i] {
			t.Fatalf("families (days) returned %v, want %v", got, want)
		}
	}
}
