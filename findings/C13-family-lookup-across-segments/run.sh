#!/bin/sh
# runs the demo against /repo's working tree without writing into it (the package's own tests need generated
# mocks that are not in the tree, so they are masked in the overlay)
export GOFLAGS=-mod=mod GOPROXY=off GOSUMDB=off GOTOOLCHAIN=local
D=$(mktemp -d /tmp/c13demo.XXXXXX)
python3 - "$D" <<'PY'
import json,glob,sys
d=sys.argv[1]
rep={f:"" for f in glob.glob("/repo/tsdb/*_test.go")}
rep["/repo/tsdb/zz_c13_family_lookup_test.go"]="/verif/findings/C13-family-lookup-across-segments/zz_c13_family_lookup_test.go"
json.dump({"Replace":rep},open(d+"/ov.json","w"))
PY
cd /repo && go test -overlay "$D/ov.json" -vet=off -count=1 -timeout 120s -run TestVerifFamilyLookupAcrossSegments ./tsdb/ 2>&1 | grep -v "INFO\|WARN"
RC=$?
rm -rf "$D"
exit $RC
