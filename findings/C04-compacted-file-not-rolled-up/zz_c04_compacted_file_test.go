package kv

import (
	"path/filepath"
	"testing"
	"time"

	"github.com/lindb/lindb/kv/version"
	"github.com/lindb/lindb/pkg/timeutil"
)

// A source family (10s interval, "day" store) is configured to roll up into a 5min interval ("month" store).
// Every flushed file is registered for rollup (rollupFiles mark). If the level-0 compaction of the source family
// runs before the rollup job (both are started by the same scheduler tick in store.compact(); the default
// thresholds are 4 files for compaction and 3 for rollup, both configurable; the rollup also skips a round when
// the target store is not open yet), the marked files are merged into a level-1 file and removed from level 0.
// doRollupWork then looks the marked files up in level 0 only (v.GetFile(0, n)), finds nothing, runs an empty
// compaction, reports success - and family.rollup deletes the marks. The data of these files never reaches the
// target interval: "a source file contributes to a given target exactly once" is violated (zero times).
//
// Run (nothing is written into the repository; the package's own tests need generated mocks that are not in the
// tree, so they are masked in the overlay):
//   /verif/findings/C04-compacted-file-not-rolled-up/run.sh

type verifConcatMerger struct{ fl Flusher }

func (m *verifConcatMerger) Init(_ map[string]interface{}) {}
func (m *verifConcatMerger) Merge(key uint32, values [][]byte) error {
	var out []byte
	for _, v := range values {
		out = append(out, v...)
	}
	return m.fl.Add(key, out)
}

func verifWait(t *testing.T, what string, cond func() bool) {
	t.Helper()
	deadline := time.Now().Add(20 * time.Second)
	for !cond() {
		if time.Now().After(deadline) {
			t.Fatalf("timeout waiting for %s", what)
		}
		time.Sleep(10 * time.Millisecond)
	}
}

func verifRollupScenario(t *testing.T, compactFirst bool) (marksLeft int, targetHasKey bool) {
	dir := t.TempDir()
	src := timeutil.Interval(10 * 1000)      // 10s  -> interval type day
	tgt := timeutil.Interval(5 * 60 * 1000)  // 5min -> interval type month
	sourceStore, err := GetStoreManager().CreateStore(filepath.Join(dir, "day", "20190702"),
		StoreOption{Levels: 2, Source: src, Rollup: []timeutil.Interval{tgt}})
	if err != nil {
		t.Fatal(err)
	}
	targetStore, err := GetStoreManager().CreateStore(filepath.Join(dir, "month", "201907"),
		StoreOption{Levels: 2, Source: tgt})
	if err != nil {
		t.Fatal(err)
	}
	defer func() {
		_ = GetStoreManager().CloseStore(sourceStore.Name())
		_ = GetStoreManager().CloseStore(targetStore.Name())
	}()
	fam, err := sourceStore.CreateFamily("10", FamilyOption{Merger: "verif_concat", CompactThreshold: 2, RollupThreshold: 100})
	if err != nil {
		t.Fatal(err)
	}
	// two flushes: two level-0 files, both registered for rollup into the 5min interval
	for i := 0; i < 2; i++ {
		fl := fam.NewFlusher()
		if err := fl.Add(7, []byte{byte(i + 1)}); err != nil {
			t.Fatal(err)
		}
		if err := fl.Commit(); err != nil {
			t.Fatal(err)
		}
		fl.Release()
	}
	f := fam.(*family)
	if n := len(f.familyVersion.GetLiveRollupFiles()); n != 2 {
		t.Fatalf("expected 2 files registered for rollup, got %d", n)
	}
	if compactFirst {
		fam.Compact()
		verifWait(t, "compaction", func() bool {
			if f.compacting.Load() {
				return false
			}
			s := f.GetSnapshot()
			defer s.Close()
			return s.GetCurrent().NumberOfFilesInLevel(0) == 0
		})
	}
	sourceStore.ForceRollup()
	verifWait(t, "rollup", func() bool { return !f.rolluping.Load() && f.lastRollupTime.Load() > 0 })

	marksLeft = len(f.familyVersion.GetLiveRollupFiles())
	// what did the target interval receive?
	tf := targetStore.GetFamily("7") // 2019-07-02 10:00 is day 2 of the month segment 201907... family name computed by rollup()
	for _, name := range targetStore.ListFamilyNames() {
		tf = targetStore.GetFamily(name)
		s := tf.GetSnapshot()
		_ = s.Load(7, func(value []byte) error {
			if len(value) > 0 {
				targetHasKey = true
			}
			return nil
		})
		s.Close()
	}
	_ = tf
	_ = version.FamilyID(0)
	return marksLeft, targetHasKey
}

func TestVerifCompactedFileIsNotRolledUp(t *testing.T) {
	RegisterMerger("verif_concat", func(fl Flusher) (Merger, error) { return &verifConcatMerger{fl: fl}, nil })

	// control: rollup before compaction - the target receives the data, the marks are removed
	marks, has := verifRollupScenario(t, false)
	if marks != 0 || !has {
		t.Fatalf("control run: expected the rollup to deliver the data and clear the marks (marks=%d, targetHasKey=%v)", marks, has)
	}
	// compaction first: the marks are removed although nothing was rolled up
	marks, has = verifRollupScenario(t, true)
	if marks == 0 && !has {
		t.Fatalf("files registered for rollup were compacted out of level 0; the rollup job delivered nothing to the target interval but removed their rollup marks (marks left=%d, target has the key=%v)", marks, has)
	}
}
