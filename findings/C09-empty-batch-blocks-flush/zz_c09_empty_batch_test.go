package index

import (
	"os"
	"path/filepath"
	"testing"

	"github.com/lindb/lindb/series/tag"
)

// A flush cycle in which a dictionary has no new names (the ordinary case for namespaces and metric names: the
// flush checker runs periodically) must not stop that dictionary from being flushed later: a name created
// afterwards has to keep its id across the next flush and a reopen.
func TestVerifC09EmptyBatchBlocksLaterFlushes(t *testing.T) {
	base := os.Getenv("C09_DEMO_TMP")
	if base == "" {
		t.Fatal("C09_DEMO_TMP is not set")
	}
	dir := filepath.Join(base, "empty_batch")
	_ = os.RemoveAll(dir)
	if err := os.MkdirAll(dir, 0o755); err != nil {
		t.Fatal(err)
	}
	db, err := NewMetricMetaDatabase("c09empty", dir)
	if err != nil {
		t.Fatal(err)
	}
	const key = tag.KeyID(3)
	gen := func(v string) uint32 {
		id, err := db.GenTagValueID(key, []byte(v))
		if err != nil {
			t.Fatalf("GenTagValueID(%q): %v", v, err)
		}
		return id
	}
	// cycle 1: nothing new anywhere
	db.PrepareFlush()
	if err := db.Flush(); err != nil {
		t.Fatal(err)
	}
	// a name is created, then two ordinary flush cycles complete successfully
	idA := gen("host-a")
	for i := 0; i < 2; i++ {
		db.PrepareFlush()
		if err := db.Flush(); err != nil {
			t.Fatal(err)
		}
	}
	if err := db.Close(); err != nil {
		t.Fatal(err)
	}
	db, err = NewMetricMetaDatabase("c09empty", dir)
	if err != nil {
		t.Fatal(err)
	}
	defer func() { _ = db.Close() }()
	if got := gen("host-a"); got != idA {
		t.Errorf("host-a had id %d before two successful flushes and a reopen, now it has id %d: the dictionary was never flushed again after the empty cycle", idA, got)
	}
}
