package query

import (
	"errors"
	"testing"

	stagepkg "github.com/lindb/lindb/query/stage"
	trackerpkg "github.com/lindb/lindb/query/tracker"

	"github.com/lindb/common/models"
)

type verifStage struct{ id string }

func (s *verifStage) Identifier() string                { return s.id }
func (s *verifStage) Stats() []*models.OperatorStats   { return nil }
func (s *verifStage) Type() stagepkg.Type               { return stagepkg.Type(0) }
func (s *verifStage) Plan() stagepkg.PlanNode           { return nil }
func (s *verifStage) NextStages() []stagepkg.Stage      { return nil }
func (s *verifStage) Complete()                         {}
func (s *verifStage) IsAsync() bool                     { return true }
func (s *verifStage) Execute(_ stagepkg.PlanNode, _ func(), _ func(err error)) {}

// Two stages run concurrently (e.g. two shard scans on a worker pool). The first one to
// finish fails, the last one to finish succeeds: the pipeline's completion must carry an error.
func TestVerifStageErrorIsNotLost(t *testing.T) {
	calls := 0
	var got error
	sm := newPipelineStateMachine(trackerpkg.NewStageTracker(nil), func(err error) {
		calls++
		got = err
	})
	sm.executeStage("", "a", &verifStage{id: "a"})
	sm.executeStage("", "b", &verifStage{id: "b"})
	sm.completeStage("a", errors.New("shard 1 failed"))
	sm.completeStage("b", nil)
	if calls != 1 {
		t.Fatalf("completion signalled %d times", calls)
	}
	if got == nil {
		t.Fatalf("VERIF-FINDING: a stage failed but the pipeline completed without an error")
	}
}
