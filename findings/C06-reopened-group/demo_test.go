package demo

import (
	"testing"

	"github.com/lindb/lindb/pkg/queue"
)

// history: group g1 consumes 0..2 and acks 1, is stopped; group g2 consumes+acks up to 9;
// Sync moves the queue ack to 9; g1 is re-created from its meta file.
func TestReopenedGroupAckAboveConsumed(t *testing.T) {
	dir := t.TempDir()
	fq, err := queue.NewFanOutQueue(dir, 128*1024*1024)
	if err != nil {
		t.Fatal(err)
	}
	defer fq.Close()
	for i := 0; i < 10; i++ {
		if err := fq.Queue().Put([]byte("msg")); err != nil {
			t.Fatal(err)
		}
	}
	g1, _ := fq.GetOrCreateConsumerGroup("g1")
	g2, _ := fq.GetOrCreateConsumerGroup("g2")
	for i := 0; i < 3; i++ {
		g1.Consume()
	}
	g1.Ack(1)
	for i := 0; i < 10; i++ {
		g2.Consume()
	}
	g2.Ack(9)
	fq.StopConsumerGroup("g1")
	fq.Sync()
	if got := fq.Queue().AcknowledgedSeq(); got != 9 {
		t.Fatalf("queue ack = %d", got)
	}
	g1b, err := fq.GetOrCreateConsumerGroup("g1")
	if err != nil {
		t.Fatal(err)
	}
	t.Logf("reopened g1: acknowledged=%d consumed=%d appended=%d", g1b.AcknowledgedSeq(), g1b.ConsumedSeq(), fq.Queue().AppendedSeq())
	if g1b.AcknowledgedSeq() > g1b.ConsumedSeq() {
		t.Fatalf("invariant acknowledged <= consumed broken: ack=%d consumed=%d", g1b.AcknowledgedSeq(), g1b.ConsumedSeq())
	}
}
