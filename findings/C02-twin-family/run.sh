#!/bin/sh
# runs the demo against /repo's working tree without writing into it
export GOFLAGS=-mod=mod GOPROXY=off GOSUMDB=off GOTOOLCHAIN=local
D=$(mktemp -d /tmp/c02demo.XXXXXX)
python3 - "$D" <<'PY'
import json,glob,sys
d=sys.argv[1]
rep={f:"" for f in glob.glob("/repo/kv/*_test.go")}
rep["/repo/kv/zz_c02_twin_family_test.go"]="/verif/findings/C02-twin-family/zz_c02_twin_family_test.go"
json.dump({"Replace":rep},open(d+"/ov.json","w"))
PY
cd /repo && go test -overlay "$D/ov.json" -vet=off -count=1 -timeout 120s -run TestVerifTwinFamilyDeletesPendingOutput ./kv/
RC=$?
rm -rf "$D"
exit $RC
