package kv

import (
	"fmt"
	"path/filepath"
	"sync"
	"testing"
)

// store.CreateFamily looks the family up under the read lock and, on a miss, takes the write lock and builds and
// registers a family WITHOUT looking again. Two concurrent calls for the same new name (the rollup goroutines of
// several source families all call targetStore.CreateFamily(<day>) for the same target family in the same scheduler
// tick) both build a family object; the second registration replaces the first, the first caller keeps working with
// an object that is not the registered one. The two objects share the family version but not the set of pending
// outputs: the registered object's deleteObsoleteFiles (run after every compaction / rollup of that family) knows
// nothing about a table file the other object is still writing and deletes it - "no file that an unfinished writer
// still needs is ever deleted" is violated, and the writer then commits a version that references a missing file.
//
// Run: /verif/findings/C02-twin-family/run.sh

func TestVerifTwinFamilyDeletesPendingOutput(t *testing.T) {
	RegisterMerger("verif_twin", func(fl Flusher) (Merger, error) { return nil, fmt.Errorf("not used") })
	store, err := GetStoreManager().CreateStore(filepath.Join(t.TempDir(), "data"), DefaultStoreOption())
	if err != nil {
		t.Fatal(err)
	}
	defer func() { _ = GetStoreManager().CloseStore(store.Name()) }()

	var a, b Family
	for round := 0; round < 300 && a == b; round++ {
		name := fmt.Sprintf("%d", round)
		var wg sync.WaitGroup
		start := make(chan struct{})
		var fa, fb Family
		wg.Add(2)
		go func() { defer wg.Done(); <-start; fa, _ = store.CreateFamily(name, FamilyOption{Merger: "verif_twin"}) }()
		go func() { defer wg.Done(); <-start; fb, _ = store.CreateFamily(name, FamilyOption{Merger: "verif_twin"}) }()
		close(start)
		wg.Wait()
		if fa == nil || fb == nil {
			t.Fatal("create family failed")
		}
		if fa != fb {
			a, b = fa, fb
			t.Logf("round %d: two concurrent CreateFamily(%q) returned two different family objects", round, name)
		}
	}
	if a == b {
		t.Skip("the race did not show up in 300 rounds")
	}
	registered := store.GetFamily(a.Name())
	writer := a
	if registered == a {
		writer = b
	}
	// the caller that holds the non-registered object flushes a table file ...
	fl := writer.NewFlusher()
	defer fl.Release()
	if err := fl.Add(1, []byte("value")); err != nil {
		t.Fatal(err)
	}
	// ... and before it commits, the registered object cleans up (as it does after every compaction / rollup)
	registered.(*family).deleteObsoleteFiles()
	if err := fl.Commit(); err != nil {
		t.Fatalf("commit of the writer fails: %v", err)
	}
	s := writer.GetSnapshot()
	defer s.Close()
	found := false
	err = s.Load(1, func(v []byte) error { found = string(v) == "value"; return nil })
	if err != nil || !found {
		t.Fatalf("the table file of an unfinished writer was deleted by the twin family object: the committed key is unreadable (err=%v, found=%v)", err, found)
	}
}
