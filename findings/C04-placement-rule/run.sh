#!/bin/sh
# runs the demo against /repo's working tree without writing into it
export GOFLAGS=-mod=mod GOPROXY=off GOSUMDB=off GOTOOLCHAIN=local
D=$(mktemp -d /tmp/c04bdemo.XXXXXX)
python3 - "$D" <<'PY'
import json,glob,sys
d=sys.argv[1]
rep={f:"" for f in glob.glob("/repo/kv/*_test.go")}
rep["/repo/kv/zz_c04_placement_test.go"]="/verif/findings/C04-placement-rule/zz_c04_placement_test.go"
json.dump({"Replace":rep},open(d+"/ov.json","w"))
PY
cd /repo && go test -overlay "$D/ov.json" -vet=off -count=1 -timeout 120s -run TestVerifRollupPlacementRule ./kv/
RC=$?
rm -rf "$D"
exit $RC
