package kv

import (
	"math"
	"testing"
	"time"

	"github.com/lindb/lindb/aggregation"
	"github.com/lindb/lindb/pkg/bit"
	"github.com/lindb/lindb/pkg/encoding"
	"github.com/lindb/lindb/pkg/timeutil"
	"github.com/lindb/lindb/series/field"
)

// A rollup moves the points of a source family into the coarser slots of the target family. Two computations must
// agree on where a source slot goes:
//   (A) the slot mapping of the Rollup: target slot = CalcSlot(GetTimestamp(source slot)) - it is used by
//       merger.prepare to size the target slot range, and it is what the property asks for ("the target slot whose
//       interval contains the timestamp");
//   (B) the placement rule the merger hands to aggregation.DownSamplingMultiSeriesInto:
//       target position = BaseSlot() + source slot / IntervalRatio() - targetRange.Start.
// (B) equals (A) only when the source family starts on a boundary of the target interval and the target interval is a
// multiple of the source interval. The database option accepts any intervals of different types (option.Intervals
// .IsValid only rejects two intervals of the same type), e.g. 10s raw data rolled up to 7m: an hour does not start on
// a 7-minute boundary of its day, and the point written 3 minutes into the hour 01:00 lands in the slot of 00:56
// instead of the slot of 01:03.
//
// Run: /verif/findings/C04-placement-rule/run.sh

func TestVerifRollupPlacementRule(t *testing.T) {
	source := timeutil.Interval(10 * 1000)    // 10s, interval type day:   one family per hour
	target := timeutil.Interval(7 * 60 * 1000) // 7m,  interval type month: one family per day
	if source.Type() != timeutil.Day || target.Type() != timeutil.Month {
		t.Fatalf("unexpected interval types %v %v", source.Type(), target.Type())
	}
	ms := func(tm time.Time) int64 { return tm.UnixNano() / 1000000 }
	dayStart := ms(time.Date(2019, time.July, 2, 0, 0, 0, 0, time.Local))
	hourStart := ms(time.Date(2019, time.July, 2, 1, 0, 0, 0, time.Local))
	r := newRollup(source, target, hourStart, dayStart)

	// one point, 3 minutes into the hour: source slot 18 of the family 01:00
	const sourceSlot = uint16(18)
	enc := encoding.NewTSDEncoder(sourceSlot)
	enc.AppendTime(bit.One)
	enc.AppendValue(math.Float64bits(42))
	data, err := enc.Bytes()
	if err != nil {
		t.Fatal(err)
	}
	decoder := encoding.NewTSDDecoder(data)

	// what merger.prepare computes for a block whose slot range is [18,18]
	targetRange := timeutil.SlotRange{
		Start: r.CalcSlot(r.GetTimestamp(sourceSlot)),
		End:   r.CalcSlot(r.GetTimestamp(sourceSlot)),
	}
	wantSlot := int(targetRange.Start) // (A): the 7-minute slot that contains 01:03:00 -> 63/7 = 9
	got := -1
	aggregation.DownSamplingMultiSeriesInto(targetRange, r.IntervalRatio(), r.BaseSlot(), field.SumField,
		[]*encoding.TSDDecoder{decoder},
		func(targetPos int, value float64) {
			if !math.IsInf(value, 1) {
				got = int(targetRange.Start) + targetPos
			}
		})
	ruleSlot := int(r.BaseSlot()) + int(sourceSlot/r.IntervalRatio()) // (B)
	if got != wantSlot {
		t.Fatalf("source slot %d (01:03:00) belongs to target slot %d (slot mapping), the placement rule gives slot %d; the rollup emitted the value at slot %d (-1: dropped)",
			sourceSlot, wantSlot, ruleSlot, got)
	}
}
