package tsdb

// Demonstration for seeded change C07/m3 (flush racing with local replication).
//
// History: entries 0..3 are appended to the write-ahead-log and applied by the local replicator,
// entry 4 is appended; a flush (metadata -> shard index -> family data) starts and, exactly when
// the flush has frozen the memory database, the local replicator applies entry 4.
// After the flush completed (data table + sequence committed, log acknowledged) the node dies.
// The crash image is a copy of the node directory (data + wal).
// On the recovered image every appended entry must be either in the flushed data or replayed
// from the log, and no flushed entry may be applied again.
//
// The test lives in package tsdb because the only seam that reaches the instant "memory database
// frozen" is the unexported newMemoryDBFunc; the local replicator (replica/replicator_local.go,
// package replica imports tsdb) is mirrored call by call in c07wReplicator.

import (
	"bytes"
	"fmt"
	"os/exec"
	"path/filepath"
	"sync"
	"testing"
	"time"

	commontimeutil "github.com/lindb/common/pkg/timeutil"
	protoMetricsV1 "github.com/lindb/common/proto/gen/v1/linmetrics"

	"github.com/lindb/lindb/config"
	"github.com/lindb/lindb/flow"
	"github.com/lindb/lindb/models"
	"github.com/lindb/lindb/pkg/compress"
	"github.com/lindb/lindb/pkg/encoding"
	"github.com/lindb/lindb/pkg/option"
	"github.com/lindb/lindb/pkg/queue"
	"github.com/lindb/lindb/pkg/timeutil"
	"github.com/lindb/lindb/series/metric"
	"github.com/lindb/lindb/tsdb/memdb"
	"github.com/lindb/lindb/tsdb/tblstore/metricsdata"
)

const (
	c07wDB     = "seed_db"
	c07wShard  = models.ShardID(1)
	c07wLeader = int32(1)
)

// ---- seam: memory database that reports the instant it is frozen by a flush

var (
	c07wHookMu     sync.Mutex
	c07wOnReadOnly func()
	c07wOnAcquire  func()
)

type c07wMemDB struct {
	memdb.MemoryDatabase
}

// AcquireWrite is what dataFamily.WriteRows calls right after it obtained the mutable memory database.
func (g *c07wMemDB) AcquireWrite() {
	c07wHookMu.Lock()
	hook := c07wOnAcquire
	c07wOnAcquire = nil
	c07wHookMu.Unlock()
	if hook != nil {
		hook()
	}
	g.MemoryDatabase.AcquireWrite()
}

// CompleteWrite is what dataFamily.WriteRows calls (deferred) when all rows of a batch are in the memory database.
func (g *c07wMemDB) CompleteWrite() {
	g.MemoryDatabase.CompleteWrite()
	c07wHookMu.Lock()
	hook := c07wOnReadOnly
	c07wOnReadOnly = nil
	c07wHookMu.Unlock()
	if hook != nil {
		hook()
	}
}

// ---- local replicator, mirrors replica.NewLocalReplicator / (*localReplicator).Replica

type c07wReplicator struct {
	family DataFamily
	cg     queue.ConsumerGroup
	reader compress.Reader
	rows   *metric.StorageBatchRows
}

func newSeedM3Replicator(family DataFamily, cg queue.ConsumerGroup) *c07wReplicator {
	r := &c07wReplicator{family: family, cg: cg, reader: compress.NewSnappyReader(), rows: metric.NewStorageBatchRows()}
	// add ack sequence callback
	family.AckSequence(c07wLeader, func(seq int64) { cg.Ack(seq) })
	// reset replica index = ack index + 1, replay wal log
	cg.SetConsumedSeq(cg.AcknowledgedSeq())
	family.Retain()
	return r
}

// replicaOne consumes and applies one log entry (partition.replica + localReplicator.Replica).
func (r *c07wReplicator) replicaOne(t *testing.T) (seq int64, applied bool) {
	seq = r.cg.Consume()
	if seq < 0 {
		return seq, false
	}
	msg, err := r.cg.Queue().Queue().Get(seq)
	if err != nil {
		t.Errorf("get message %d: %v", seq, err)
		return seq, false
	}
	if !r.family.ValidateSequence(c07wLeader, seq) {
		return seq, false
	}
	defer r.family.CommitSequence(c07wLeader, seq)
	block, err := r.reader.Uncompress(msg)
	if err != nil {
		t.Errorf("uncompress %d: %v", seq, err)
		return seq, false
	}
	r.rows.UnmarshalRows(block)
	if err := r.family.WriteRows(r.rows.Rows()); err != nil {
		t.Errorf("write rows %d: %v", seq, err)
		return seq, false
	}
	return seq, true
}

// drain applies exactly the pending entries (Consume blocks on an empty log).
func (r *c07wReplicator) drain(t *testing.T) (applied []int64) {
	for r.cg.Pending() > 0 {
		if seq, ok := r.replicaOne(t); ok {
			applied = append(applied, seq)
		}
	}
	return applied
}

// ---- node

type c07wNode struct {
	engine Engine
	db     Database
	shard  Shard
	family DataFamily
	log    queue.FanOutQueue
	repl   *c07wReplicator
}

func c07wOpen(t *testing.T, root string, familyTime int64) *c07wNode {
	t.Helper()
	config.SetGlobalStorageConfig(&config.StorageBase{
		TSDB: config.TSDB{Dir: filepath.Join(root, "data")},
		WAL:  config.WAL{Dir: filepath.Join(root, "wal")},
	})
	engine, err := NewEngine()
	if err != nil {
		t.Fatalf("new engine: %v", err)
	}
	opt := &option.DatabaseOption{
		Intervals:    option.Intervals{{Interval: timeutil.Interval(10 * 1000)}},
		AutoCreateNS: true,
	}
	if err = engine.CreateShards(c07wDB, opt, c07wShard); err != nil {
		t.Fatalf("create shard: %v", err)
	}
	db, _ := engine.GetDatabase(c07wDB)
	shard, ok := engine.GetShard(c07wDB, c07wShard)
	if !ok {
		t.Fatalf("shard not found")
	}
	family, err := shard.GetOrCrateDataFamily(familyTime)
	if err != nil {
		t.Fatalf("family: %v", err)
	}
	walDir := filepath.Join(root, "wal", c07wDB, "1",
		commontimeutil.FormatTimestamp(familyTime, commontimeutil.DataTimeFormat4), "1")
	log, err := queue.NewFanOutQueue(walDir, 0)
	if err != nil {
		t.Fatalf("fan out queue: %v", err)
	}
	cg, err := log.GetOrCreateConsumerGroup("1")
	if err != nil {
		t.Fatalf("consumer group: %v", err)
	}
	return &c07wNode{engine: engine, db: db, shard: shard, family: family, log: log,
		repl: newSeedM3Replicator(family, cg)}
}

func (n *c07wNode) close() {
	// the engine flushes its families on close and acknowledges the log: close the log last
	n.engine.Close()
	n.log.Close()
}

// flush does what dataFlushChecker.doFlush/flushShard do for one family.
func (n *c07wNode) flush(t *testing.T) {
	t.Helper()
	if err := n.db.FlushMeta(); err != nil {
		t.Fatalf("flush meta: %v", err)
	}
	n.db.WaitFlushMetaCompleted()
	if err := n.shard.FlushIndex(); err != nil {
		t.Fatalf("flush index: %v", err)
	}
	n.shard.WaitFlushIndexCompleted()
	if err := n.family.Flush(); err != nil {
		t.Fatalf("flush family: %v", err)
	}
}

func (n *c07wNode) seriesInMemory() int {
	total := 0
	for _, s := range n.family.GetState().MemoryDatabases {
		total += s.NumOfSeries
	}
	return total
}

// pointsInFiles reads every table file of the family through the metric data reader/loader and
// returns the number of stored series, of stored data points and the sum of their values
// (every log entry is one point with value 1 in a series of its own).
func (n *c07wNode) pointsInFiles(t *testing.T) (series, points int, sum float64) {
	t.Helper()
	snapshot := n.family.Family().GetSnapshot()
	defer snapshot.Close()
	for _, file := range snapshot.GetCurrent().GetAllFiles() {
		reader, err := snapshot.GetReader(file.GetFileNumber())
		if err != nil {
			t.Fatalf("table reader: %v", err)
		}
		it := reader.Iterator()
		for it.HasNext() {
			_ = it.Key()
			mr, err := metricsdata.NewReader(reader.Path(), it.Value())
			if err != nil {
				t.Fatalf("metric reader: %v", err)
			}
			ids := mr.GetSeriesIDs()
			series += int(ids.GetCardinality())
			for i, highKey := range ids.GetHighKeys() {
				loadCtx := &flow.DataLoadContext{
					ShardExecuteCtx: &flow.ShardExecuteContext{
						StorageExecuteCtx: &flow.StorageExecuteContext{Fields: mr.GetFields()},
					},
					LowSeriesIDsContainer: ids.GetContainerAtIndex(i),
					SeriesIDHighKey:       highKey,
					Decoder:               encoding.GetTSDDecoder(),
					DownSampling: func(slotRange timeutil.SlotRange, _ uint16, _ int, getter encoding.TSDValueGetter) {
						for slot := int(slotRange.Start); slot <= int(slotRange.End); slot++ {
							if v, ok := getter.GetValue(uint16(slot)); ok {
								points++
								sum += v
							}
						}
					},
				}
				loadCtx.Grouping()
				if loader := mr.Load(loadCtx); loader != nil {
					loader.Load(loadCtx)
				}
			}
		}
	}
	return series, points, sum
}

func c07wMessage(t *testing.T, i int, ts int64) []byte {
	t.Helper()
	ml := protoMetricsV1.MetricList{Metrics: []*protoMetricsV1.Metric{{
		Namespace: "ns",
		Name:      "seed_cpu",
		Timestamp: ts,
		Tags:      []*protoMetricsV1.KeyValue{{Key: "entry", Value: fmt.Sprintf("e%03d", i)}},
		SimpleFields: []*protoMetricsV1.SimpleField{{
			Name: "f1", Value: 1.0, Type: protoMetricsV1.SimpleFieldType_DELTA_SUM,
		}},
	}}}
	var buf bytes.Buffer
	converter := metric.NewProtoConverter(models.NewDefaultLimits())
	if _, err := converter.MarshalProtoMetricListV1To(ml, &buf); err != nil {
		t.Fatalf("marshal: %v", err)
	}
	w := compress.NewSnappyWriter()
	if _, err := w.Write(buf.Bytes()); err != nil {
		t.Fatalf("compress: %v", err)
	}
	if err := w.Close(); err != nil {
		t.Fatalf("compress: %v", err)
	}
	out := w.Bytes()
	cp := make([]byte, len(out))
	copy(cp, out)
	return cp
}

func TestVerifC07WriteInFlightAtFlush(t *testing.T) {
	oldNewMemDB := newMemoryDBFunc
	newMemoryDBFunc = func(cfg *memdb.MemoryDatabaseCfg) (memdb.MemoryDatabase, error) {
		db, err := oldNewMemDB(cfg)
		if err != nil {
			return nil, err
		}
		return &c07wMemDB{MemoryDatabase: db}, nil
	}
	defer func() { newMemoryDBFunc = oldNewMemDB }()

	root := t.TempDir()
	live := filepath.Join(root, "live")
	image := filepath.Join(root, "image")
	now := commontimeutil.Now()
	familyTime := timeutil.Interval(10 * 1000).Calculator().CalcFamilyTime(now)

	const entries = 5

	// ---- life before the crash
	n1 := c07wOpen(t, live, familyTime)
	for i := 0; i < entries-1; i++ {
		if err := n1.log.Queue().Put(c07wMessage(t, i, now)); err != nil {
			t.Fatalf("append: %v", err)
		}
	}
	if got := n1.repl.drain(t); len(got) != entries-1 {
		t.Fatalf("expected %d entries applied, got %v", entries-1, got)
	}
	// the entry that races with the flush
	if err := n1.log.Queue().Put(c07wMessage(t, entries-1, now)); err != nil {
		t.Fatalf("append: %v", err)
	}
	// the flush checker runs (on its own goroutine in production) exactly when the rows of the entry are in the
	// memory database and the replicator has not yet committed the entry's sequence: WriteRows has returned its
	// write permit, the deferred CommitSequence of the replicator comes next. Run synchronously at that point.
	flushed := false
	c07wHookMu.Lock()
	c07wOnReadOnly = func() {
		flushed = true
		n1.flush(t)
	}
	c07wHookMu.Unlock()
	if _, ok := n1.repl.replicaOne(t); !ok || !flushed {
		t.Fatalf("setup: entry applied=%v, flush ran inside the window=%v", ok, flushed)
	}
	t.Logf("before crash: flush ran between WriteRows and CommitSequence of entry %d, log ack=%d, family state=%+v",
		entries-1, n1.repl.cg.AcknowledgedSeq(), n1.family.GetState())

	// ---- crash: image of the node directory
	if out, err := exec.Command("cp", "-a", "--sparse=always", live, image).CombinedOutput(); err != nil {
		t.Fatalf("image: %v %s", err, out)
	}
	n1.close()
	time.Sleep(50 * time.Millisecond)

	// ---- recovery on the image
	n2 := c07wOpen(t, image, familyTime)
	defer n2.close()
	persisted, has := n2.family.GetState().AckSequences[c07wLeader]
	if !has {
		persisted = -1
	}
	ack := n2.repl.cg.AcknowledgedSeq()
	series, points, sum := n2.pointsInFiles(t)
	t.Logf("recovered: log appended=%d, local ack=%d, family persisted seq=%d, flushed data: %d series, %d points, sum=%v",
		n2.log.Queue().AppendedSeq(), ack, persisted, series, points, sum)
	if ack > persisted {
		t.Errorf("C07 violated: acknowledged log position %d runs ahead of the sequence stored with the flushed data %d",
			ack, persisted)
	}
	// flushed data must hold exactly the entries at or below the persisted sequence
	if int64(points) != persisted+1 {
		t.Errorf("C07 violated: sequence %d is stored durably with the flushed data, but the flushed data holds %d of the %d entries at or below it",
			persisted, points, persisted+1)
	}
	replayed := n2.repl.drain(t)
	t.Logf("replayed after recovery: %v (series in memory=%d)", replayed, n2.seriesInMemory())
	// make everything durable and read it back
	n2.flush(t)
	series, points, sum = n2.pointsInFiles(t)
	t.Logf("after recovery + replay + flush: %d series, %d points, sum=%v", series, points, sum)
	if points != entries || sum != float64(entries) {
		t.Errorf("C07 violated: %d log entries were appended before the crash, after recovery and replay the data holds "+
			"%d points with sum %v (persisted seq=%d, ack=%d, replayed=%v): an entry was lost or applied twice",
			entries, points, sum, persisted, ack, replayed)
	}
}

func TestVerifC07WriterObtainedTheDatabaseBeforeTheSwitch(t *testing.T) {
	oldNewMemDB := newMemoryDBFunc
	newMemoryDBFunc = func(cfg *memdb.MemoryDatabaseCfg) (memdb.MemoryDatabase, error) {
		db, err := oldNewMemDB(cfg)
		if err != nil {
			return nil, err
		}
		return &c07wMemDB{MemoryDatabase: db}, nil
	}
	defer func() { newMemoryDBFunc = oldNewMemDB }()

	root := t.TempDir()
	live := filepath.Join(root, "live")
	image := filepath.Join(root, "image")
	now := commontimeutil.Now()
	familyTime := timeutil.Interval(10 * 1000).Calculator().CalcFamilyTime(now)

	const entries = 6

	// ---- life before the crash
	n1 := c07wOpen(t, live, familyTime)
	for i := 0; i < entries-2; i++ {
		if err := n1.log.Queue().Put(c07wMessage(t, i, now)); err != nil {
			t.Fatalf("append: %v", err)
		}
	}
	if got := n1.repl.drain(t); len(got) != entries-2 {
		t.Fatalf("expected %d entries applied, got %v", entries-2, got)
	}
	// the entry that races with the flush
	if err := n1.log.Queue().Put(c07wMessage(t, entries-2, now)); err != nil {
		t.Fatalf("append: %v", err)
	}
	// the flush checker runs (on its own goroutine in production) exactly when the rows of the entry are in the
	// memory database and the replicator has not yet committed the entry's sequence: WriteRows has returned its
	// write permit, the deferred CommitSequence of the replicator comes next. Run synchronously at that point.
	flushed := false
	c07wHookMu.Lock()
	c07wOnAcquire = func() {
		// the writer holds the mutable memory database but has not registered as a writer yet: the flush does not
		// wait for it, switches, flushes and discards the database the writer is about to write into
		flushed = true
		n1.flush(t)
	}
	c07wHookMu.Unlock()
	if _, ok := n1.repl.replicaOne(t); !ok || !flushed {
		t.Fatalf("setup: entry applied=%v, flush ran inside the window=%v", ok, flushed)
	}
	// life goes on: one more entry, one more (ordinary) flush - now the sequence of the raced entry is durable
	if err := n1.log.Queue().Put(c07wMessage(t, entries-1, now)); err != nil {
		t.Fatalf("append: %v", err)
	}
	if _, ok := n1.repl.replicaOne(t); !ok {
		t.Fatalf("setup: last entry not applied")
	}
	n1.flush(t)
	t.Logf("before crash: flush ran between GetOrCreateMemoryDatabase and AcquireWrite of entry %d, log ack=%d, family state=%+v",
		entries-2, n1.repl.cg.AcknowledgedSeq(), n1.family.GetState())

	// ---- crash: image of the node directory
	if out, err := exec.Command("cp", "-a", "--sparse=always", live, image).CombinedOutput(); err != nil {
		t.Fatalf("image: %v %s", err, out)
	}
	n1.close()
	time.Sleep(50 * time.Millisecond)

	// ---- recovery on the image
	n2 := c07wOpen(t, image, familyTime)
	defer n2.close()
	persisted, has := n2.family.GetState().AckSequences[c07wLeader]
	if !has {
		persisted = -1
	}
	ack := n2.repl.cg.AcknowledgedSeq()
	series, points, sum := n2.pointsInFiles(t)
	t.Logf("recovered: log appended=%d, local ack=%d, family persisted seq=%d, flushed data: %d series, %d points, sum=%v",
		n2.log.Queue().AppendedSeq(), ack, persisted, series, points, sum)
	if ack > persisted {
		t.Errorf("C07 violated: acknowledged log position %d runs ahead of the sequence stored with the flushed data %d",
			ack, persisted)
	}
	// flushed data must hold exactly the entries at or below the persisted sequence
	if int64(points) != persisted+1 {
		t.Errorf("C07 violated: sequence %d is stored durably with the flushed data, but the flushed data holds %d of the %d entries at or below it",
			persisted, points, persisted+1)
	}
	replayed := n2.repl.drain(t)
	t.Logf("replayed after recovery: %v (series in memory=%d)", replayed, n2.seriesInMemory())
	// make everything durable and read it back
	n2.flush(t)
	series, points, sum = n2.pointsInFiles(t)
	t.Logf("after recovery + replay + flush: %d series, %d points, sum=%v", series, points, sum)
	if points != entries || sum != float64(entries) {
		t.Errorf("C07 violated: %d log entries were appended before the crash, after recovery and replay the data holds "+
			"%d points with sum %v (persisted seq=%d, ack=%d, replayed=%v): an entry was lost or applied twice",
			entries, points, sum, persisted, ack, replayed)
	}
}
