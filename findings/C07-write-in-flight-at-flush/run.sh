#!/bin/sh
# usage: run_demo.sh <worktree-root>
# exit 0: property C07 holds on this tree; non-zero: violated (or the demo could not run)
set -u
WT="${1:?usage: run_demo.sh <worktree-root>}"
WT=$(cd "$WT" && pwd)
HERE=$(cd "$(dirname "$0")" && pwd)
export GOFLAGS=-mod=mod GOPROXY=off GOSUMDB=off GOTOOLCHAIN=local
PKG=tsdb
TEST=zz_c07_write_in_flight_test.go
OVERLAY=$(mktemp /tmp/overlay_m3_XXXXXX.json)
cleanup() { rm -f "$WT/$PKG/$TEST" "$OVERLAY"; }
trap cleanup EXIT INT TERM
cp "$HERE/$TEST" "$WT/$PKG/$TEST"
# hide the package's own tests (they need generated mocks that are not in the tree)
{
  printf '{"Replace":{'
  first=1
  for f in "$WT/$PKG"/*_test.go; do
    [ "$(basename "$f")" = "$TEST" ] && continue
    [ $first -eq 1 ] || printf ','
    first=0
    printf '"%s":""' "$f"
  done
  printf '}}\n'
} > "$OVERLAY"
cd "$WT" || exit 2
LOG=$(mktemp /tmp/demo_m3_XXXXXX.log)
go test -vet=off -count=1 -timeout 300s -overlay "$OVERLAY" -run TestVerifC07W -v ./$PKG/ > "$LOG" 2>&1
rc=$?
grep -E '^(=== RUN|--- |\s+zz_seed|\s+\S+_test.go|PASS|FAIL|ok|panic|#|\S+\.go:[0-9]+)' "$LOG" | tail -40
rm -f "$LOG"
if [ $rc -eq 0 ]; then echo "DEMO RESULT: property C07 holds (exit 0)"; else echo "DEMO RESULT: property C07 VIOLATED or demo failed (exit $rc)"; fi
exit $rc
