package version

import (
	"os"
	"path/filepath"
	"testing"
	"time"

	"github.com/lindb/lindb/kv/table"
)

// The manifest is an append-only journal; a commit appends one record (length header + body) through a 256 KiB
// bufio.Writer and syncs. A record larger than the buffer reaches the file in more than one write(2): the buffer is
// flushed when it is full (header + the first part of the body), the rest follows. If the process dies between these
// two file-system operations the journal ends with a half-written record. The commit had not returned, so the record
// must simply not count ("a half-written metadata record is never visible, never prevents reopening") - but recovery
// reports the short read of the tail as an error and the store cannot be opened any more.
//
// The test commits a small edit log (must survive), then a big one, cuts the manifest where the first write(2) of the
// big record ends (what a kill between the two writes leaves behind) and reopens.
//
// Run: /verif/findings/C01-torn-manifest-tail/run.sh

func TestVerifTornManifestTail(t *testing.T) {
	dir := t.TempDir()
	open := func() *storeVersionSet {
		vs := NewStoreVersionSet(dir, table.NewCache(dir, time.Hour), 2).(*storeVersionSet)
		vs.CreateFamilyVersion("f", 1)
		return vs
	}
	vs := open()
	if err := vs.Recover(); err != nil {
		t.Fatal(err)
	}
	small := NewEditLog(1)
	small.Add(CreateNewFile(0, NewFileMeta(table.FileNumber(10), 1, 2, 10)))
	if err := vs.CommitFamilyEditLog("f", small); err != nil {
		t.Fatal(err)
	}
	manifest := filepath.Join(dir, ManifestFileName(vs.ManifestFileNumber()))
	// CommitFamilyEditLog moves manifestFileNumber at run time; the live manifest is the one CURRENT names
	cur, err := os.ReadFile(filepath.Join(dir, current()))
	if err != nil {
		t.Fatal(err)
	}
	manifest = filepath.Join(dir, string(cur))
	st, err := os.Stat(manifest)
	if err != nil {
		t.Fatal(err)
	}
	sizeBefore := st.Size()

	big := NewEditLog(1)
	for i := 0; i < 40000; i++ {
		big.Add(CreateNewFile(0, NewFileMeta(table.FileNumber(1000+i), uint32(i), uint32(i+1), 10)))
	}
	if err := vs.CommitFamilyEditLog("f", big); err != nil {
		t.Fatal(err)
	}
	st, _ = os.Stat(manifest)
	if st.Size()-sizeBefore <= 256*1024 {
		t.Fatalf("the big record is only %d bytes", st.Size()-sizeBefore)
	}
	_ = vs.Destroy()
	// the process died after the first write(2) of the big record: 256 KiB of it are in the file
	if err := os.Truncate(manifest, sizeBefore+256*1024); err != nil {
		t.Fatal(err)
	}

	vs2 := open()
	if err := vs2.Recover(); err != nil {
		t.Fatalf("a half-written tail record of the manifest prevents reopening: %v", err)
	}
	defer func() { _ = vs2.Destroy() }()
	s := vs2.GetFamilyVersion("f").GetSnapshot()
	defer s.Close()
	if _, ok := s.GetCurrent().GetFile(0, table.FileNumber(10)); !ok {
		t.Fatalf("the commit that returned before the crash is not visible after reopening")
	}
	if n := len(s.GetCurrent().GetAllFiles()); n != 1 {
		t.Fatalf("the half-written commit is partly visible: %d files", n)
	}
}
