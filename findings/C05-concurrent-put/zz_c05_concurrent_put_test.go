package queue

import (
	"bytes"
	"testing"
)

// Deterministic replay of one interleaving of two concurrent Put calls (A and B) on the
// same queue: A.alloc, B.alloc, B.write+persist, A.write+persist. Both appends succeed and
// are readable, but the index order (B, A) differs from the allocation order (A, B); after
// close/reopen the cursor is restored from the LAST index entry (A, the lower region), so
// the next append overwrites B's bytes: "a later append never alters an earlier message"
// is violated for sequence 0.
func TestVerifConcurrentPutInterleaving(t *testing.T) {
	dir := t.TempDir()
	qi, err := NewQueue(dir, 128*1024*1024)
	if err != nil {
		t.Fatal(err)
	}
	q := qi.(*queue)
	msgA := bytes.Repeat([]byte("A"), 10)
	msgB := bytes.Repeat([]byte("B"), 20)
	// A: first critical section
	pA, pageA, offA, err := q.alloc(len(msgA))
	if err != nil {
		t.Fatal(err)
	}
	// B: first critical section
	pB, pageB, offB, err := q.alloc(len(msgB))
	if err != nil {
		t.Fatal(err)
	}
	// B finishes first
	pageB.WriteBytes(msgB, offB)
	if err := q.persistMetaOfMessage(pB, len(msgB), offB); err != nil {
		t.Fatal(err)
	}
	pageA.WriteBytes(msgA, offA)
	if err := q.persistMetaOfMessage(pA, len(msgA), offA); err != nil {
		t.Fatal(err)
	}
	got0, _ := q.Get(0)
	got1, _ := q.Get(1)
	if !bytes.Equal(got0, msgB) || !bytes.Equal(got1, msgA) {
		t.Fatalf("before reopen: seq0=%q seq1=%q", got0, got1)
	}
	q.Close()
	qi2, err := NewQueue(dir, 128*1024*1024)
	if err != nil {
		t.Fatal(err)
	}
	defer qi2.Close()
	if err := qi2.Put(bytes.Repeat([]byte("C"), 20)); err != nil {
		t.Fatal(err)
	}
	got0b, err := qi2.Get(0)
	if err != nil {
		t.Fatal(err)
	}
	if !bytes.Equal(got0b, msgB) {
		t.Fatalf("VERIF-FINDING: message at sequence 0 was altered by a later append after reopen: got %q want %q", got0b, msgB)
	}
}
