package demo

import (
	"bytes"
	"fmt"
	"sync"
	"testing"

	"github.com/lindb/lindb/pkg/queue"
)

// Concurrent appenders through the public API, then reopen + one more append: every
// message appended before must still read back byte for byte.
func TestConcurrentAppendersThenReopen(t *testing.T) {
	for round := 0; round < 30; round++ {
		dir := t.TempDir()
		q, err := queue.NewQueue(dir, 128*1024*1024)
		if err != nil {
			t.Fatal(err)
		}
		var wg sync.WaitGroup
		for g := 0; g < 8; g++ {
			wg.Add(1)
			go func(g int) {
				defer wg.Done()
				for i := 0; i < 200; i++ {
					msg := bytes.Repeat([]byte{byte('a' + g)}, 10+g*7+i%13)
					if err := q.Put(msg); err != nil {
						t.Error(err)
						return
					}
				}
			}(g)
		}
		wg.Wait()
		n := q.AppendedSeq()
		before := make([][]byte, n+1)
		for s := int64(0); s <= n; s++ {
			m, err := q.Get(s)
			if err != nil {
				t.Fatal(err)
			}
			before[s] = append([]byte(nil), m...)
		}
		q.Close()
		q2, err := queue.NewQueue(dir, 128*1024*1024)
		if err != nil {
			t.Fatal(err)
		}
		if err := q2.Put(bytes.Repeat([]byte("Z"), 4096)); err != nil {
			t.Fatal(err)
		}
		for s := int64(0); s <= n; s++ {
			m, err := q2.Get(s)
			if err != nil {
				t.Fatal(err)
			}
			if !bytes.Equal(m, before[s]) {
				t.Fatalf("round %d: message %d altered after reopen+append: %s", round, s, fmt.Sprintf("%q -> %q", before[s][:8], m[:8]))
			}
		}
		q2.Close()
	}
}
