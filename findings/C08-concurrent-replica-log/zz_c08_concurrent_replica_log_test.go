package replica

import (
	"bytes"
	"os"
	"reflect"
	"sync"
	"testing"
	"unsafe"

	"go.uber.org/atomic"

	"github.com/lindb/lindb/metrics"
	"github.com/lindb/lindb/pkg/queue"
)

// Two rpc streams of one leader can be alive on the follower at the same time: the handler goroutine of a broken
// stream is still working on its last request while the leader, after its handshake, resends the same index on a new
// stream (app/storage/rpc/replica.go runs one goroutine per stream, nothing serialises them per partition). The follower
// must store the message of an index once, at that index.

// gateQueue lets the test run "the other handler" exactly between the position check and the append of a ReplicaLog call.
type gateFanOut struct {
	queue.FanOutQueue
	q *gateQueue
}

func (f *gateFanOut) Queue() queue.Queue { return f.q }

type gateQueue struct {
	queue.Queue
	mu     sync.Mutex
	onRead func() // invoked once, after the first AppendedSeq read of the gated call
}

func (g *gateQueue) AppendedSeq() int64 {
	seq := g.Queue.AppendedSeq()
	g.mu.Lock()
	fn := g.onRead
	g.onRead = nil
	g.mu.Unlock()
	if fn != nil {
		fn()
	}
	return seq
}

func TestVerifC08TwoStreamsAppendTheSameIndex(t *testing.T) {
	dir, err := os.MkdirTemp(os.Getenv("C08_TMP"), "rl-")
	if err != nil {
		t.Fatal(err)
	}
	defer func() { _ = os.RemoveAll(dir) }()
	fq, err := queue.NewFanOutQueue(dir, 1024)
	if err != nil {
		t.Fatal(err)
	}
	defer fq.Close()
	gq := &gateQueue{Queue: fq.Queue()}
	p := &partition{log: &gateFanOut{FanOutQueue: fq, q: gq}}
	p.closed = atomic.NewBool(false)
	p.statistics = metrics.NewStorageWriteAheadLogStatistics("c08db", "1")
	pv := reflect.ValueOf(p).Elem()

	var lateIdx int64
	var lateErr error
	ranInside := false
	other := func() { lateIdx, lateErr = p.ReplicaLog(0, []byte("m0 (resent on the new stream)")) }
	gq.onRead = func() {
		// the other stream's handler arrives now. If ReplicaLog holds a lock of the partition here, that handler has
		// to wait until this call is over; otherwise it runs right now, between the position check and the append.
		if f := pv.FieldByName("replicaMutex"); f.IsValid() {
			m := (*sync.Mutex)(unsafe.Pointer(f.UnsafeAddr()))
			if !m.TryLock() {
				return // serialised: runs after the first call (below)
			}
			m.Unlock()
		}
		ranInside = true
		other()
	}
	idx, err := p.ReplicaLog(0, []byte("m0"))
	if !ranInside {
		other()
	}
	if err != nil || lateErr != nil {
		t.Fatalf("append failed: %v / %v", err, lateErr)
	}
	t.Logf("first stream: ack index %d; second stream: ack index %d; follower appended=%d (interleaved=%v)", idx, lateIdx, fq.Queue().AppendedSeq(), ranInside)
	if app := fq.Queue().AppendedSeq(); app != 0 {
		b0, _ := fq.Queue().Get(0)
		b1, _ := fq.Queue().Get(1)
		t.Errorf("the leader sent index 0 twice (old and new stream); the follower stored it twice: appended=%d, [0]=%q [1]=%q - every later position is shifted", app, b0, b1)
	}
	if b0, _ := fq.Queue().Get(0); !bytes.HasPrefix(b0, []byte("m0")) {
		t.Errorf("position 0 holds %q", b0)
	}
}
