#!/bin/sh
# usage: run.sh [repo-root]   (default: a scratch worktree of /repo at $REV (default HEAD) under /tmp, removed afterwards)
# exit 0: an index is stored once; 1: defect reproduced
export GOFLAGS=-mod=mod GOPROXY=off GOSUMDB=off GOTOOLCHAIN=local
HERE=$(cd "$(dirname "$0")" && pwd)
WT=${1:-}
OWN=0
if [ -z "$WT" ]; then WT=$(mktemp -d /tmp/c08rl.XXXXXX); git -C /repo worktree add -q --detach "$WT" ${REV:-HEAD} || exit 2; OWN=1; fi
WORK=$(mktemp -d /tmp/c08rl-work.XXXXXX); mkdir -p $WORK/tmp; export C08_TMP=$WORK/tmp
F=zz_c08_concurrent_replica_log_test.go
cp "$HERE/$F" "$WT/replica/$F"
{ printf '{"Replace":{'; first=1; for f in "$WT"/replica/*_test.go; do [ "$(basename "$f")" = "$F" ] && continue; [ $first -eq 1 ] || printf ','; first=0; printf '"%s":""' "$f"; done; printf '}}\n'; } > $WORK/overlay.json
(cd "$WT" && go test -vet=off -count=1 -timeout 120s -overlay $WORK/overlay.json -run TestVerifC08TwoStreamsAppendTheSameIndex -v ./replica/ 2>&1 | grep -v "^{\|INFO\|^=== " | tail -8; exit 0)
(cd "$WT" && go test -vet=off -count=1 -timeout 120s -overlay $WORK/overlay.json -run TestVerifC08TwoStreamsAppendTheSameIndex ./replica/ >/dev/null 2>&1); rc=$?
rm -f "$WT/replica/$F"; rm -rf $WORK
if [ $OWN -eq 1 ]; then git -C /repo worktree remove --force "$WT"; fi
exit $rc
