package version

import (
	"sync"
	"sync/atomic"
	"testing"
	"time"

	"github.com/lindb/lindb/kv/table"
)

// A snapshot pins the version it reads (reference count) and a version stays registered in the family's active
// versions while it is pinned: deleteObsoleteFiles keeps exactly the files of the registered versions.
// Version.Release decides "nobody references this version any more" when its decrement reaches zero and then calls
// removeVersion, which only checks that the version is not the current one. Between the decrement and the removal
// another reader can pin the same (still current) version and a commit can make it non-current: removeVersion then
// unregisters a version that an open snapshot holds, and the files only that version references are fair game for the
// next deleteObsoleteFiles.
//
// The test runs readers (GetSnapshot / Close) against commits and checks, right after pinning, that the pinned
// version is registered - under the family version's read lock, so the check itself is exact.
//
// Run: /verif/findings/C02-version-removed-while-pinned/run.sh

func TestVerifVersionRemovedWhilePinned(t *testing.T) {
	dir := t.TempDir()
	cache := table.NewCache(dir, time.Hour)
	vs := NewStoreVersionSet(dir, cache, 2).(*storeVersionSet)
	fvI := vs.CreateFamilyVersion("f", 1)
	if err := vs.Recover(); err != nil {
		t.Fatal(err)
	}
	defer func() { _ = vs.Destroy() }()
	fv := fvI.(*familyVersion)

	var stop atomic.Bool
	var bad atomic.Int64
	var wg sync.WaitGroup
	reader := func() {
		defer wg.Done()
		for !stop.Load() {
			s := fv.GetSnapshot()
			v := s.GetCurrent()
			// the version this snapshot pins must be registered as long as the snapshot is open
			fv.mutex.RLock()
			_, registered := fv.activeVersions[v.ID()]
			fv.mutex.RUnlock()
			if !registered {
				bad.Add(1)
				stop.Store(true)
			}
			s.Close()
		}
	}
	for i := 0; i < 4; i++ {
		wg.Add(1)
		go reader()
	}
	deadline := time.Now().Add(20 * time.Second)
	fileNumber := int64(100)
	commits := 0
	for !stop.Load() && time.Now().Before(deadline) {
		el := NewEditLog(1)
		fileNumber++
		el.Add(CreateNewFile(0, NewFileMeta(table.FileNumber(fileNumber), 1, 2, 10)))
		if err := vs.CommitFamilyEditLog("f", el); err != nil {
			t.Fatal(err)
		}
		commits++
	}
	stop.Store(true)
	wg.Wait()
	if bad.Load() > 0 {
		t.Fatalf("after %d commits: a version was unregistered from the active versions while an open snapshot pinned it", commits)
	}
	t.Logf("no unregistered pinned version in %d commits", commits)
}
