#!/bin/sh
# runs the demo against /repo's working tree without writing into it
export GOFLAGS=-mod=mod GOPROXY=off GOSUMDB=off GOTOOLCHAIN=local
D=$(mktemp -d /tmp/c02bdemo.XXXXXX)
python3 - "$D" <<'PY'
import json,glob,sys
d=sys.argv[1]
rep={f:"" for f in glob.glob("/repo/kv/version/*_test.go")}
rep["/repo/kv/version/zz_c02_version_pin_test.go"]="/verif/findings/C02-version-removed-while-pinned/zz_c02_version_pin_test.go"
json.dump({"Replace":rep},open(d+"/ov.json","w"))
PY
cd /repo && go test -overlay "$D/ov.json" -vet=off -count=1 -timeout 120s -run TestVerifVersionRemovedWhilePinned ./kv/version/
RC=$?
rm -rf "$D"
exit $RC
