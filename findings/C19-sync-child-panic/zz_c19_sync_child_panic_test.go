package query_test

// Demonstration for the C19 finding "a stage that panics on a pool goroutine while running synchronously is never completed" (harness of seeded change C19-m6). Real code exercised: query.NewExecutePipeline (pipeline + state machine),
// stage.baseStage.Execute (through real stages created by stage.NewMetadataLookupStage /
// stage.NewDataLoadStage), stage.NewPlanNode and a real concurrent.Pool.
// Only the *content* of the stages (plan operators / next stages) is supplied by the test.

import (
	"context"
	"fmt"
	"sync"
	"testing"
	"time"

	commonmodels "github.com/lindb/common/models"

	"github.com/lindb/lindb/flow"
	"github.com/lindb/lindb/internal/concurrent"
	"github.com/lindb/lindb/internal/linmetric"
	"github.com/lindb/lindb/metrics"
	"github.com/lindb/lindb/query"
	querycontext "github.com/lindb/lindb/query/context"
	"github.com/lindb/lindb/query/operator"
	stagepkg "github.com/lindb/lindb/query/stage"
	trackerpkg "github.com/lindb/lindb/query/tracker"
	"github.com/lindb/lindb/tsdb"
)

// fakeDB only provides the executor pools (that is all the stage constructors used here need).
type fakeDB struct {
	tsdb.Database
	pools *tsdb.ExecutorPool
}

func (db *fakeDB) ExecutorPool() *tsdb.ExecutorPool { return db.pools }

// opFn is a plan operator whose body is given by the test.
type opFn struct {
	name string
	fn   func() error
}

func (o *opFn) Identifier() string { return o.name }
func (o *opFn) Execute() error     { return o.fn() }

var _ operator.Operator = (*opFn)(nil)

// demoStage delegates Execute/IsAsync/Stats/Type to a REAL stage (embedded),
// and only overrides what is executed and which stages follow.
type demoStage struct {
	stagepkg.Stage
	name       string
	plan       stagepkg.PlanNode
	next       func() []stagepkg.Stage
	onComplete func()
}

func (s *demoStage) Identifier() string                   { return s.name }
func (s *demoStage) Plan() stagepkg.PlanNode              { return s.plan }
func (s *demoStage) Stats() []*commonmodels.OperatorStats { return s.Stage.Stats() }
func (s *demoStage) NextStages() []stagepkg.Stage {
	if s.next == nil {
		return nil
	}
	return s.next()
}
func (s *demoStage) Complete() {
	if s.onComplete != nil {
		s.onComplete()
	}
}

func TestVerifC19SyncChildPanicsInsidePooledParent(t *testing.T) {
	pool := concurrent.NewPool("c19-find", 2, time.Minute,
		metrics.NewConcurrentStatistics("c19-find", linmetric.StorageRegistry))
	taskCtx := flow.NewTaskContextWithTimeout(context.Background(), time.Hour)
	defer taskCtx.Release()
	leafCtx := &querycontext.LeafExecuteContext{
		TaskCtx:  taskCtx,
		Database: &fakeDB{pools: &tsdb.ExecutorPool{Filtering: pool, Grouping: pool, Scanner: pool}},
	}
	syncStage := func() stagepkg.Stage { return stagepkg.NewMetadataLookupStage(leafCtx) }
	asyncStage := func() stagepkg.Stage { return stagepkg.NewDataLoadStage(leafCtx, nil, nil) }

	var (
		mu        sync.Mutex
		callbacks int
		cbErr     error
	)
	parentDone := make(chan struct{})
	// C: a stage without a pool (runs on the goroutine that plans it) whose plan panics
	c := &demoStage{Stage: syncStage(), name: "C",
		plan: stagepkg.NewPlanNode(&opFn{name: "c", fn: func() error { panic(fmt.Errorf("index out of range in shard 2")) }}),
	}
	// P: runs on the pool, succeeds, and then plans C from its completion handler (on the pool goroutine)
	pst := &demoStage{Stage: asyncStage(), name: "P",
		plan:       stagepkg.NewPlanNode(&opFn{name: "p", fn: func() error { return nil }}),
		next:       func() []stagepkg.Stage { return []stagepkg.Stage{c} },
		onComplete: func() { close(parentDone) },
	}
	root := &demoStage{Stage: syncStage(), name: "root",
		plan: stagepkg.NewEmptyPlanNode(),
		next: func() []stagepkg.Stage { return []stagepkg.Stage{pst} },
	}
	if root.IsAsync() || !pst.IsAsync() || c.IsAsync() {
		t.Fatalf("unexpected sync/async mix")
	}
	p := query.NewExecutePipeline(trackerpkg.NewStageTracker(taskCtx), func(err error) {
		mu.Lock()
		defer mu.Unlock()
		callbacks++
		cbErr = err
	})
	p.Execute(root)
	<-parentDone
	// Stop waits for every worker to finish its task: after it returns nothing of this pipeline is running.
	pool.Stop()

	mu.Lock()
	defer mu.Unlock()
	if callbacks != 1 {
		t.Fatalf("C19 violated: stage C panicked, every goroutine of the pipeline has finished, and the completion callback was invoked %d times (want exactly 1): the request is never answered", callbacks)
	}
	if cbErr == nil {
		t.Fatalf("C19 violated: stage C panicked but the pipeline completed WITHOUT error")
	}
	t.Logf("pipeline completed once with error: %v", cbErr)
}
