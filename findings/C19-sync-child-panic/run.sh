#!/bin/sh
# usage: run.sh [repo-root]   (default: a scratch worktree of /repo at $REV (default HEAD) under /tmp, removed afterwards)
# exit 0: the pipeline completes exactly once with an error; 1: defect reproduced
export GOFLAGS=-mod=mod GOPROXY=off GOSUMDB=off GOTOOLCHAIN=local
HERE=$(cd "$(dirname "$0")" && pwd)
WT=${1:-}
OWN=0
if [ -z "$WT" ]; then WT=$(mktemp -d /tmp/c19find.XXXXXX); git -C /repo worktree add -q --detach "$WT" ${REV:-HEAD} || exit 2; OWN=1; fi
WORK=$(mktemp -d /tmp/c19find-work.XXXXXX)
F=zz_c19_sync_child_panic_test.go
cp "$HERE/$F" "$WT/query/$F"
{ printf '{"Replace":{'; first=1; for f in "$WT"/query/*_test.go; do [ "$(basename "$f")" = "$F" ] && continue; [ $first -eq 1 ] || printf ','; first=0; printf '"%s":""' "$f"; done; printf '}}\n'; } > $WORK/overlay.json
(cd "$WT" && go test -vet=off -count=1 -timeout 120s -overlay $WORK/overlay.json -run TestVerifC19SyncChildPanicsInsidePooledParent ./query/ 2>&1 | grep -v "^{\|INFO\|^goroutine\|^\s\|^$" | tail -8; exit 0)
(cd "$WT" && go test -vet=off -count=1 -timeout 120s -overlay $WORK/overlay.json -run TestVerifC19SyncChildPanicsInsidePooledParent ./query/ >/dev/null 2>&1); rc=$?
rm -f "$WT/query/$F"; rm -rf $WORK
if [ $OWN -eq 1 ]; then git -C /repo worktree remove --force "$WT"; fi
exit $rc
