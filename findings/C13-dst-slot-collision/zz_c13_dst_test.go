package timeutil

import (
	"testing"
	"time"
)

// The calculators work in time.Local. In a zone with daylight saving time the day on which the clocks go back has 25
// hours. The month calculator (intervals from 5 minutes up to 1 hour: one family per day) computes the slot as
// ((timestamp - familyStart) % OneDay) / interval: in the 25th hour of that day the remainder wraps, so a point written at
// 23:30 local time lands in the slot of 00:30 of the same family - two timestamps 24 hours apart share one (family, slot),
// and slot*interval added to the family start is a whole day below the timestamp.
//
// Run: /verif/findings/C13-dst-slot-collision/run.sh   (sets TZ=America/New_York; in a fixed-offset zone the test passes)

func TestVerifDSTSlotCollision(t *testing.T) {
	loc := time.Local
	calc := Interval(5 * 60 * 1000).Calculator() // month type
	interval := int64(5 * 60 * 1000)
	ms := func(tm time.Time) int64 { return tm.UnixNano() / 1000000 }
	// 2019-11-03: clocks go back at 02:00 in America/New_York
	early := ms(time.Date(2019, time.November, 3, 0, 30, 0, 0, loc))
	late := ms(time.Date(2019, time.November, 3, 23, 30, 0, 0, loc))
	segE, segL := calc.CalcSegmentTime(early), calc.CalcSegmentTime(late)
	famE, famL := calc.CalcFamily(early, segE), calc.CalcFamily(late, segL)
	startE, startL := calc.CalcFamilyStartTime(segE, famE), calc.CalcFamilyStartTime(segL, famL)
	slotE, slotL := calc.CalcSlot(early, startE, interval), calc.CalcSlot(late, startL, interval)
	t.Logf("zone %v: 00:30 -> family start %d slot %d; 23:30 -> family start %d slot %d; apart %dh",
		loc, startE, slotE, startL, slotL, (late-early)/3600000)
	if startE == startL && slotE == slotL {
		t.Fatalf("two timestamps %d hours apart belong to the same family (start %d) and the same slot %d", (late-early)/3600000, startE, slotE)
	}
	if back := startL + int64(slotL)*interval; !(back <= late && late < back+interval) {
		t.Fatalf("slot*interval added to the family start (%d) is not within one interval below the timestamp (%d)", back, late)
	}
}
