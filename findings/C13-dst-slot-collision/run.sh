#!/bin/sh
# runs the demo against /repo's working tree without writing into it, in a zone with daylight saving time
export GOFLAGS=-mod=mod GOPROXY=off GOSUMDB=off GOTOOLCHAIN=local
D=$(mktemp -d /tmp/c13dst.XXXXXX)
echo '{"Replace":{"/repo/pkg/timeutil/zz_c13_dst_test.go":"/verif/findings/C13-dst-slot-collision/zz_c13_dst_test.go"}}' > "$D/ov.json"
cd /repo && TZ=${TZ_DEMO:-America/New_York} go test -overlay "$D/ov.json" -vet=off -count=1 -timeout 120s -run TestVerifDSTSlotCollision -v ./pkg/timeutil/ 2>&1 | grep -v "^=== "
RC=$?
rm -rf "$D"
exit $RC
