#!/bin/sh
# runs the demo against /repo's working tree without writing into it
export GOFLAGS=-mod=mod GOPROXY=off GOSUMDB=off GOTOOLCHAIN=local
D=$(mktemp -d /tmp/c03demo.XXXXXX)
python3 - "$D" <<'PY'
import json,glob,sys
d=sys.argv[1]
rep={f:"" for f in glob.glob("/repo/kv/*_test.go")}
rep["/repo/kv/zz_c03_stream_writer_test.go"]="/verif/findings/C03-stream-writer-outlives-builder/zz_c03_stream_writer_test.go"
json.dump({"Replace":rep},open(d+"/ov.json","w"))
PY
cd /repo && go test -overlay "$D/ov.json" -vet=off -count=1 -timeout 120s -run TestVerifStreamWriterOutlivesBuilder ./kv/
RC=$?
rm -rf "$D"
exit $RC
