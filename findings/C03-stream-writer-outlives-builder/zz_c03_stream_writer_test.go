package kv

import (
	"path/filepath"
	"testing"

	"github.com/lindb/lindb/kv/table"
)

// A merger that writes through the flusher's StreamWriter keeps ONE stream writer for the whole merge - this is what
// the metric data merger does (tsdb/tblstore/metricsdata NewFlusher takes kvFlusher.StreamWriter() once). For a
// compaction the flusher is a compactFlusher: its StreamWriter() returns a wrapper around the stream writer of the
// output file that is open at that moment. When a Commit makes the output file reach the family's MaxFileSize the
// compaction job finishes that file and sets its builder to nil - but the wrapper is still bound to the finished
// builder. The next key is written into a closed file, and its Commit dereferences the nil builder: the compaction
// goroutine panics (no recover: the process dies), nothing of the compaction is installed.
// MaxFileSize is 256 MiB by default and configurable per family; the demo uses a small value.
//
// Run: /verif/findings/C03-stream-writer-outlives-builder/run.sh

type verifStreamMerger struct {
	sw table.StreamWriter
}

func (m *verifStreamMerger) Init(_ map[string]interface{}) {}
func (m *verifStreamMerger) Merge(key uint32, values [][]byte) error {
	m.sw.Prepare(key)
	for _, v := range values {
		if _, err := m.sw.Write(v); err != nil {
			return err
		}
	}
	return m.sw.Commit()
}

func TestVerifStreamWriterOutlivesBuilder(t *testing.T) {
	RegisterMerger("verif_stream", func(fl Flusher) (Merger, error) {
		sw, err := fl.StreamWriter() // once, like metricsdata.NewFlusher
		if err != nil {
			return nil, err
		}
		return &verifStreamMerger{sw: sw}, nil
	})
	store, err := GetStoreManager().CreateStore(filepath.Join(t.TempDir(), "data"), DefaultStoreOption())
	if err != nil {
		t.Fatal(err)
	}
	defer func() { _ = GetStoreManager().CloseStore(store.Name()) }()
	// every output file is "big enough" after one value of 64 bytes
	fam, err := store.CreateFamily("10", FamilyOption{Merger: "verif_stream", CompactThreshold: 2, MaxFileSize: 32})
	if err != nil {
		t.Fatal(err)
	}
	value := make([]byte, 64)
	for i := 0; i < 2; i++ {
		fl := fam.NewFlusher()
		for key := uint32(1); key <= 3; key++ {
			if err := fl.Add(key, value); err != nil {
				t.Fatal(err)
			}
		}
		if err := fl.Commit(); err != nil {
			t.Fatal(err)
		}
		fl.Release()
	}
	f := fam.(*family)
	// run the compaction job in this goroutine (family.compact() runs exactly this in a background goroutine
	// without recover)
	var panicked interface{}
	func() {
		defer func() { panicked = recover() }()
		err = f.backgroundCompactionJob()
	}()
	if panicked != nil {
		t.Fatalf("the compaction job panics when its output outgrows MaxFileSize: %v", panicked)
	}
	if err != nil {
		t.Fatalf("compaction failed: %v", err)
	}
	// all three keys must still be readable after the compaction
	s := f.GetSnapshot()
	defer s.Close()
	for key := uint32(1); key <= 3; key++ {
		found := 0
		if err := s.Load(key, func(v []byte) error { found += len(v); return nil }); err != nil {
			t.Fatal(err)
		}
		if found != 2*len(value) {
			t.Fatalf("key %d: %d bytes readable after compaction, %d were written", key, found, 2*len(value))
		}
	}
}
