#!/bin/sh
# usage: run.sh [test name regexp]; runs the demos against /repo's working tree without writing into it (the package's own tests need generated
# mocks that are not in the tree, so they are masked in the overlay)
export GOFLAGS=-mod=mod GOPROXY=off GOSUMDB=off GOTOOLCHAIN=local
D=$(mktemp -d /tmp/c09demo.XXXXXX)
python3 - "$D" <<'PY'
import json,glob,sys
d=sys.argv[1]
rep={f:"" for f in glob.glob("/repo/index/*_test.go")}
rep["/repo/index/zz_c09_concurrent_create_test.go"]="/verif/findings/C09-concurrent-create/zz_c09_concurrent_create_test.go"
rep["/repo/index/zz_c09_schema_race_test.go"]="/verif/findings/C09-concurrent-create/zz_c09_schema_race_test.go"
json.dump({"Replace":rep},open(d+"/ov.json","w"))
PY
cd /repo && go test -overlay "$D/ov.json" -vet=off -count=1 -timeout 300s -run "${1:-TestVerif}" ./index/ 2>&1 | grep -v "INFO\|WARN"
RC=$?
rm -rf "$D"
exit $RC
