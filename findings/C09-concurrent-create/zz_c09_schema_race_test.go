package index

import (
	"path/filepath"
	"sync"
	"sync/atomic"
	"testing"

	v1 "github.com/lindb/lindb/index/v1"
	"github.com/lindb/lindb/kv"
	"github.com/lindb/lindb/models"
	"github.com/lindb/lindb/series/field"
	"github.com/lindb/lindb/series/metric"
)

// The first row of a new metric makes two goroutines register its schema at the same time: memdb's
// metadataDatabase.handle calls GenFieldID(metric, field) and a shard's indexDatabase.handle calls
// GenTagKeyID(metric, tagKey) (and several shards call GenTagKeyID for the same metric). genFieldID / genTagKeyID
// read the schema WITHOUT the lock (nil: the metric is new), then take the lock, create a schema object of their own
// and call PutIfNotExist - and go on with their own object even when another caller's schema was stored first.
// Whatever they add (the field, the tag key and its freshly generated id) lands in an object nobody can find:
// the id returned to the caller is not the id of that name in the dictionary, and the next caller generates
// another one.
//
// Run: /verif/findings/C09-concurrent-create/run.sh TestVerifConcurrentSchemaRegistration

func TestVerifConcurrentSchemaRegistration(t *testing.T) {
	store, err := kv.GetStoreManager().CreateStore(filepath.Join(t.TempDir(), "meta"), kv.DefaultStoreOption())
	if err != nil {
		t.Fatal(err)
	}
	defer func() { _ = kv.GetStoreManager().CloseStore(store.Name()) }()
	family, err := store.CreateFamily("schema", kv.FamilyOption{Merger: string(v1.MetricSchemaMerger)})
	if err != nil {
		t.Fatal(err)
	}
	s := NewMetricSchemaStore(family).(*metricSchemaStore)
	limits := models.NewDefaultLimits()
	var seq atomic.Uint32
	createFn := func() uint32 { return seq.Add(1) }

	const rounds = 200000
	for i := 1; i <= rounds; i++ {
		id := metric.ID(i)
		var wg sync.WaitGroup
		start := make(chan struct{})
		var tagKeyID uint32
		wg.Add(2)
		go func() {
			defer wg.Done()
			<-start
			if _, err := s.genFieldID(id, field.Meta{Name: "load", Type: field.SumField}, limits); err != nil {
				t.Error(err)
			}
		}()
		go func() {
			defer wg.Done()
			<-start
			k, err := s.genTagKeyID(id, []byte("host"), limits, createFn)
			if err != nil {
				t.Error(err)
			}
			tagKeyID = uint32(k)
		}()
		close(start)
		wg.Wait()
		schema, _ := s.GetSchema(id)
		if schema == nil {
			t.Fatalf("round %d: no schema registered", i)
		}
		_, hasField := schema.Fields.Find("load")
		tm, hasTag := schema.TagKeys.Find("host")
		if !hasField || !hasTag || uint32(tm.ID) != tagKeyID {
			t.Fatalf("round %d: metric %d: after GenFieldID(load) and GenTagKeyID(host) both returned successfully (tag key id %d), the registered schema has field load: %v, tag key host: %v (id %d)",
				i, id, tagKeyID, hasField, hasTag, tm.ID)
		}
	}
	t.Logf("no lost registration in %d rounds", rounds)
}
