package index

import (
	"fmt"
	"path/filepath"
	"sync"
	"sync/atomic"
	"testing"
	"time"

	"github.com/lindb/lindb/kv"
	v1 "github.com/lindb/lindb/index/v1"
)

// Two goroutines look up / create the id of the SAME new name at the same time - this is what happens for the first
// row of every new metric: memdb's metadataDatabase.handle goroutine and every shard's indexDatabase.handle goroutine
// call MetricMetaDatabase.GenMetricID(namespace, name) on the one metric dictionary of the database.
// getOrCreateValue looks the name up under the read lock (miss), releases it, and createValue then takes the write
// lock and creates an id WITHOUT looking again: both callers create, they get different ids, the second overwrites
// the first in the dictionary. "Looking up or creating the ID of a name returns one and the same ID to all callers -
// concurrently" is violated: one caller keeps using an id that no later lookup will ever return.
//
// The schedule is chosen by the Go scheduler; the test repeats the two-caller race on fresh names until it sees a
// mismatch (typically within a few hundred rounds on a multi-core machine) and fails on the first one.
//
// Run: /verif/findings/C09-concurrent-create/run.sh

func TestVerifConcurrentCreateSameName(t *testing.T) {
	store, err := kv.GetStoreManager().CreateStore(filepath.Join(t.TempDir(), "meta"), kv.DefaultStoreOption())
	if err != nil {
		t.Fatal(err)
	}
	defer func() { _ = kv.GetStoreManager().CloseStore(store.Name()) }()
	family, err := store.CreateFamily("metric", kv.FamilyOption{Merger: string(v1.IndexKVMerger)})
	if err != nil {
		t.Fatal(err)
	}
	s := NewIndexKVStore(family, 1000, time.Hour)
	var seq atomic.Uint32
	createFn := func() (uint32, error) { return seq.Add(1), nil }

	const rounds = 200000
	for i := 0; i < rounds; i++ {
		key := []byte(fmt.Sprintf("cpu.load.%d", i))
		var ids [2]uint32
		var wg sync.WaitGroup
		start := make(chan struct{})
		for g := 0; g < 2; g++ {
			wg.Add(1)
			go func(g int) {
				defer wg.Done()
				<-start
				id, _, err := s.GetOrCreateValue(1, key, createFn)
				if err != nil {
					t.Error(err)
				}
				ids[g] = id
			}(g)
		}
		close(start)
		wg.Wait()
		now, ok, _ := s.GetValue(1, key)
		if ids[0] != ids[1] {
			t.Fatalf("round %d: two concurrent get-or-create calls for the same new name %q returned different ids %d and %d; the dictionary now answers %d (found=%v)",
				i, key, ids[0], ids[1], now, ok)
		}
	}
	t.Logf("no mismatch in %d rounds", rounds)
}
