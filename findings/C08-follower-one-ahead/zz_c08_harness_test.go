package replica_test

// Harness for the C08 demonstrations.
//
// Two REAL partitions (leader = node 1, follower = node 2), each on its own REAL fan out queue,
// are connected through the REAL remote replicator on the leader and the REAL rpc handler
// (app/storage/rpc.ReplicaHandler) on the follower.  Only the environment is faked: the gRPC
// transport (an in-process stream with unbuffered channels, so that every hand-over is an explicit
// rendezvous), the shard/family/database descriptors, the state manager and the follower's
// write-ahead-log directory lookup.

import (
	"bytes"
	"context"
	"errors"
	"fmt"
	"io"
	"os"
	"sync"
	"testing"

	"google.golang.org/grpc"
	"google.golang.org/grpc/metadata"

	storagerpc "github.com/lindb/lindb/app/storage/rpc"
	"github.com/lindb/lindb/coordinator/storage"
	"github.com/lindb/lindb/models"
	"github.com/lindb/lindb/pkg/option"
	"github.com/lindb/lindb/pkg/queue"
	"github.com/lindb/lindb/pkg/timeutil"
	protoReplicaV1 "github.com/lindb/lindb/proto/gen/v1/replica"
	"github.com/lindb/lindb/replica"
	"github.com/lindb/lindb/rpc"
	"github.com/lindb/lindb/tsdb"
)

const (
	leaderID   = models.NodeID(1)
	followerID = models.NodeID(2)
)

// ---- descriptors -------------------------------------------------------------------------

type fakeDB struct {
	tsdb.Database
	opt *option.DatabaseOption
}

func (d *fakeDB) Name() string                      { return "c08db" }
func (d *fakeDB) GetOption() *option.DatabaseOption { return d.opt }

type fakeShard struct {
	tsdb.Shard
	db *fakeDB
}

func (s *fakeShard) Database() tsdb.Database { return s.db }
func (s *fakeShard) ShardID() models.ShardID { return models.ShardID(1) }

type fakeFamily struct {
	tsdb.DataFamily
	tr timeutil.TimeRange
}

func (f *fakeFamily) TimeRange() timeutil.TimeRange      { return f.tr }
func (f *fakeFamily) FamilyTime() int64                  { return f.tr.Start }
func (f *fakeFamily) AckSequence(int32, func(seq int64)) {}
func (f *fakeFamily) Retain()                            {}
func (f *fakeFamily) Release()                           {}

// ---- state manager -----------------------------------------------------------------------

type fakeStateMgr struct {
	storage.StateManager
	mu       sync.Mutex
	live     bool
	handlers []func(models.NodeStateType)
}

func (m *fakeStateMgr) GetLiveNode(id models.NodeID) (models.StatefulNode, bool) {
	m.mu.Lock()
	defer m.mu.Unlock()
	return models.StatefulNode{ID: id}, m.live
}

func (m *fakeStateMgr) WatchNodeStateChangeEvent(_ models.NodeID, fn func(models.NodeStateType)) {
	m.mu.Lock()
	defer m.mu.Unlock()
	m.handlers = append(m.handlers, fn)
}

// ---- follower node -----------------------------------------------------------------------

// followerNode plays the follower's write ahead log manager: it hands the rpc handler the
// follower's current partition.
type followerNode struct {
	replica.WriteAheadLogManager // not used
	t                            *testing.T
	base                         string
	shard                        tsdb.Shard
	family                       tsdb.DataFamily
	gen                          int
	part                         replica.Partition
}

type followerWAL struct {
	replica.WriteAheadLog // not used
	n                     *followerNode
}

func (n *followerNode) GetOrCreateLog(string) replica.WriteAheadLog { return &followerWAL{n: n} }

func (w *followerWAL) GetOrCreatePartition(models.ShardID, int64, models.NodeID) (replica.Partition, error) {
	return w.n.part, nil
}

// open opens a partition over a NEW, empty log directory.
func (n *followerNode) open() {
	n.gen++
	dir := fmt.Sprintf("%s/follower-%d", n.base, n.gen)
	q, err := queue.NewFanOutQueue(dir, 1024)
	if err != nil {
		n.t.Fatalf("follower queue: %v", err)
	}
	n.part = replica.NewPartition(context.Background(), n.shard, n.family, followerID, q, nil, nil)
}

// loseLog models a follower that comes back with an empty log (disk replaced): the old partition is
// closed and a new one over an empty directory takes its place.
func (n *followerNode) loseLog() {
	_ = n.part.Close()
	n.open()
}

// ---- transport ---------------------------------------------------------------------------

var errInjected = errors.New("c08: injected transport failure")

type network struct {
	handler *storagerpc.ReplicaHandler

	failSends int // the next N client Sends fail before anything reaches the follower
	failRecvs int // the next N client Recvs fail after the follower has handled the request
	cur       *clientStream
}

// cutConnection breaks the stream that is currently open (follower process went away).
func (nw *network) cutConnection() {
	if nw.cur != nil {
		nw.cur.broken = true
	}
}

type clientFactory struct {
	rpc.ClientStreamFactory
	nw *network
}

func (f *clientFactory) CreateReplicaServiceClient(models.Node) (protoReplicaV1.ReplicaServiceClient, error) {
	return &client{nw: f.nw}, nil
}

type client struct{ nw *network }

func (c *client) Reset(ctx context.Context, in *protoReplicaV1.ResetIndexRequest, _ ...grpc.CallOption,
) (*protoReplicaV1.ResetIndexResponse, error) {
	return c.nw.handler.Reset(ctx, in)
}

func (c *client) GetReplicaAckIndex(ctx context.Context, in *protoReplicaV1.GetReplicaAckIndexRequest, _ ...grpc.CallOption,
) (*protoReplicaV1.GetReplicaAckIndexResponse, error) {
	return c.nw.handler.GetReplicaAckIndex(ctx, in)
}

func (c *client) Replica(ctx context.Context, _ ...grpc.CallOption) (protoReplicaV1.ReplicaService_ReplicaClient, error) {
	md, _ := metadata.FromOutgoingContext(ctx)
	s := &clientStream{
		nw:      c.nw,
		reqCh:   make(chan *protoReplicaV1.ReplicaRequest),
		respCh:  make(chan *protoReplicaV1.ReplicaResponse),
		closed:  make(chan struct{}),
		srvDone: make(chan struct{}),
	}
	srv := &serverStream{s: s, ctx: metadata.NewIncomingContext(context.Background(), md)}
	go func() {
		defer close(s.srvDone)
		_ = c.nw.handler.Replica(srv) // the real server side loop
	}()
	c.nw.cur = s
	return s, nil
}

type clientStream struct {
	grpc.ClientStream
	nw      *network
	reqCh   chan *protoReplicaV1.ReplicaRequest
	respCh  chan *protoReplicaV1.ReplicaResponse
	closed  chan struct{}
	srvDone chan struct{}
	once    sync.Once
	broken  bool
}

func (s *clientStream) Send(req *protoReplicaV1.ReplicaRequest) error {
	if s.broken {
		return errInjected
	}
	if s.nw.failSends > 0 {
		s.nw.failSends--
		return errInjected
	}
	// copy the record: a real transport serialises it
	cp := &protoReplicaV1.ReplicaRequest{ReplicaIndex: req.ReplicaIndex, Record: append([]byte(nil), req.Record...)}
	select {
	case s.reqCh <- cp:
		return nil
	case <-s.srvDone:
		return io.EOF
	}
}

func (s *clientStream) Recv() (*protoReplicaV1.ReplicaResponse, error) {
	if s.broken {
		return nil, errInjected
	}
	select {
	case resp := <-s.respCh:
		if s.nw.failRecvs > 0 {
			s.nw.failRecvs--
			return nil, errInjected // the follower handled the request, the answer is lost
		}
		return resp, nil
	case <-s.srvDone:
		return nil, io.EOF
	}
}

func (s *clientStream) CloseSend() error {
	s.once.Do(func() { close(s.closed) })
	<-s.srvDone // the server loop has returned: nothing is in flight on this stream any more
	return nil
}

type serverStream struct {
	grpc.ServerStream
	s   *clientStream
	ctx context.Context
}

func (s *serverStream) Context() context.Context { return s.ctx }

func (s *serverStream) Recv() (*protoReplicaV1.ReplicaRequest, error) {
	select {
	case req := <-s.s.reqCh:
		return req, nil
	case <-s.s.closed:
		return nil, io.EOF
	}
}

func (s *serverStream) Send(resp *protoReplicaV1.ReplicaResponse) error {
	select {
	case s.s.respCh <- resp:
		return nil
	case <-s.s.closed:
		return io.EOF
	}
}

// ---- cluster -----------------------------------------------------------------------------

type cluster struct {
	t        *testing.T
	nw       *network
	stateMgr *fakeStateMgr
	follower *followerNode
	leader   replica.Partition
	leaderQ  queue.FanOutQueue
	grp      queue.ConsumerGroup // the follower's consumer group on the leader
	written  [][]byte // what the leader was asked to store, by position
}

// newCluster builds leader and follower; familyEnd is the end of the family's time range.
func newCluster(t *testing.T, familyStart, familyEnd int64) *cluster {
	base := os.Getenv("C08_TMP")
	if base == "" {
		t.Fatal("C08_TMP is not set")
	}
	base, err := os.MkdirTemp(base, "run-")
	if err != nil {
		t.Fatal(err)
	}
	t.Cleanup(func() { _ = os.RemoveAll(base) })

	db := &fakeDB{opt: &option.DatabaseOption{Ahead: "1h", Behind: "1h"}}
	shard := &fakeShard{db: db}
	family := &fakeFamily{tr: timeutil.TimeRange{Start: familyStart, End: familyEnd}}

	c := &cluster{t: t, stateMgr: &fakeStateMgr{live: true}}
	c.follower = &followerNode{t: t, base: base, shard: shard, family: family}
	c.follower.open()
	c.nw = &network{handler: storagerpc.NewReplicaHandler(c.follower)}

	q, err := queue.NewFanOutQueue(base+"/leader", 1024)
	if err != nil {
		t.Fatalf("leader queue: %v", err)
	}
	c.leaderQ = q
	c.leader = replica.NewPartition(context.Background(), shard, family, leaderID, q, &clientFactory{nw: c.nw}, c.stateMgr)
	if err := c.leader.BuildReplicaForLeader(leaderID, []models.NodeID{followerID}); err != nil {
		t.Fatalf("build replica: %v", err)
	}
	if c.grp, err = q.GetOrCreateConsumerGroup(followerID.String()); err != nil {
		t.Fatalf("consumer group: %v", err)
	}
	t.Cleanup(func() {
		c.leader.Stop()
		_ = c.leader.Close()
		_ = c.follower.part.Close()
	})
	return c
}

// write appends one message to the leader's log.
func (c *cluster) write(msg string) {
	if err := c.leader.WriteLog([]byte(msg)); err != nil {
		c.t.Fatalf("leader write: %v", err)
	}
	c.written = append(c.written, []byte(msg))
}

// group returns the follower's consumer group on the leader.
func (c *cluster) group() queue.ConsumerGroup { return c.grp }

// drain keeps stepping while the channel has something to do: it is not ready (a handshake is due)
// or there are messages to send. It never steps an idle, ready channel (that step would park in
// Consume waiting for new data). Returns the number of steps.
func (c *cluster) drain(max int) int {
	n := 0
	for ; n < max; n++ {
		st, _, ok := replica.C08ReplicatorState(c.leader, followerID)
		if !ok {
			break // the leader has no replicator to the follower (any more)
		}
		if st == models.ReplicatorReadyState && c.grp.Pending() == 0 {
			break
		}
		c.step()
	}
	return n
}

func (c *cluster) followerQ() queue.Queue { return replica.C08Log(c.follower.part).Queue() }

// step runs one replication step on the leader (what one iteration of the replica loop does).
func (c *cluster) step() int { return replica.C08Step(c.leader) }

// checkAck checks that the leader treats nothing as acknowledged that the follower has not appended.
func (c *cluster) checkAck(where string) {
	c.t.Helper()
	if ack, app := c.group().AcknowledgedSeq(), c.followerQ().AppendedSeq(); ack > app {
		c.t.Errorf("%s: leader treats %d as acknowledged, follower has appended only up to %d", where, ack, app)
	}
}

// checkCopy checks positions from..to: the follower must hold exactly the bytes the leader stored there
// (and the leader, where it still holds the position, must hold them too).
func (c *cluster) checkCopy(where string, from, to int64) {
	c.t.Helper()
	for i := from; i <= to; i++ {
		want := c.written[i]
		if lb, lerr := c.leaderQ.Queue().Get(i); lerr == nil && !bytes.Equal(lb, want) {
			c.t.Errorf("%s: leader position %d holds %q, written %q", where, i, lb, want)
		}
		fb, ferr := c.followerQ().Get(i)
		switch {
		case ferr != nil:
			c.t.Errorf("%s: follower lacks position %d (%v); leader stored %q there, leader ack=%d, follower appended=%d",
				where, i, ferr, want, c.group().AcknowledgedSeq(), c.followerQ().AppendedSeq())
		case !bytes.Equal(fb, want):
			c.t.Errorf("%s: position %d differs: follower %q, leader stored %q", where, i, fb, want)
		}
	}
}

func replica_state(c *cluster) (models.ReplicatorState, string, bool) {
	return replica.C08ReplicatorState(c.leader, followerID)
}
