package replica

// Test-only exports for the C08 demonstration: run ONE replication step of a partition
// (partition.replica for every replicator) instead of the free-running loop, and look at
// the underlying logs.

import (
	"github.com/lindb/lindb/models"
	"github.com/lindb/lindb/pkg/queue"
)

// C08Step runs one replication step for every replicator of the partition, exactly what one
// iteration of replicaLoop does. It returns the number of replicators stepped.
func C08Step(p Partition) int {
	pp := p.(*partition)
	n := 0
	for nodeID, r := range pp.replicators {
		pp.replica(nodeID, r)
		n++
	}
	return n
}

// C08Log returns the fan out queue of the partition.
func C08Log(p Partition) queue.FanOutQueue {
	return p.(*partition).log
}

// C08ReplicatorState returns the state of the replicator to the given node.
func C08ReplicatorState(p Partition, node models.NodeID) (st models.ReplicatorState, msg string, ok bool) {
	r, ok := p.(*partition).replicators[node]
	if !ok {
		return 0, "", false
	}
	s := r.State()
	return s.state, s.errMsg, true
}

// C08RestartHandshake emulates what a restarted leader does first for the channel to the given node: a new
// replicator starts in the init state and runs the handshake (IsReady) before it sends anything.
func C08RestartHandshake(p Partition, node models.NodeID) bool {
	r := p.(*partition).replicators[node].(*remoteReplicator)
	r.state.Store(&state{state: models.ReplicatorInitState, errMsg: "restarted"})
	return r.IsReady()
}
