#!/bin/sh
# usage: run.sh [repo-root]   (default: a scratch worktree of /repo HEAD under /tmp, removed afterwards)
# exit 0: every write accepted after the handshake reached the follower; 1: defect reproduced
export GOFLAGS=-mod=mod GOPROXY=off GOSUMDB=off GOTOOLCHAIN=local
HERE=$(cd "$(dirname "$0")" && pwd)
WT=${1:-}
OWN=0
if [ -z "$WT" ]; then WT=$(mktemp -d /tmp/c08find.XXXXXX); git -C /repo worktree add -q --detach "$WT" ${REV:-HEAD} || exit 2; OWN=1; fi
WORK=$(mktemp -d /tmp/c08find-work.XXXXXX); mkdir -p $WORK/tmp; export C08_TMP=$WORK/tmp
FILES="zz_c08_export_test.go zz_c08_harness_test.go zz_c08_one_ahead_test.go"
for f in $FILES; do cp "$HERE/$f" "$WT/replica/$f"; done
{ printf '{"Replace":{'; first=1; for f in "$WT"/replica/*_test.go; do case "$(basename "$f")" in zz_c08_*) continue;; esac; [ $first -eq 1 ] || printf ','; first=0; printf '"%s":""' "$f"; done; printf '}}\n'; } > $WORK/overlay.json
(cd "$WT" && go test -vet=off -count=1 -timeout 120s -overlay $WORK/overlay.json -run TestVerifC08FollowerExactlyOneAhead -v ./replica/ 2>&1 | grep -v "^{" | tail -15)
rc=$?
(cd "$WT" && go test -vet=off -count=1 -timeout 120s -overlay $WORK/overlay.json -run TestVerifC08FollowerExactlyOneAhead ./replica/ >/dev/null 2>&1); rc=$?
for f in $FILES; do rm -f "$WT/replica/$f"; done; rm -rf $WORK
if [ $OWN -eq 1 ]; then git -C /repo worktree remove --force "$WT"; fi
exit $rc
