package replica_test

import (
	"bytes"
	"testing"

	commontimeutil "github.com/lindb/common/pkg/timeutil"

	"github.com/lindb/lindb/replica"
)

// The leader loses the last message of its log (a crash before the mapped page was written back: the
// situation IsReady handles with "leader's lost old wal data"), so the follower is exactly ONE message
// ahead. After the handshake every message the leader accepts must reach the follower at the leader's
// sequence, byte for byte.
func TestVerifC08FollowerExactlyOneAhead(t *testing.T) {
	now := commontimeutil.Now()
	const hour = int64(3600 * 1000)
	c := newCluster(t, now-hour, now+hour)
	for _, m := range []string{"m0", "m1", "m2", "m3", "m4-old"} {
		c.write(m)
	}
	for i := 0; i < 5; i++ {
		c.step()
	}
	if ack, app := c.group().AcknowledgedSeq(), c.followerQ().AppendedSeq(); ack != 4 || app != 4 {
		t.Fatalf("setup: leader ack=%d follower appended=%d, want 4/4", ack, app)
	}
	// the leader comes back with its log ending at 3; the stream is dead
	c.nw.cutConnection()
	replica.C08Log(c.leader).SetAppendedSeq(3)
	c.written = c.written[:4]
	// the restarted leader runs the handshake before any new write arrives
	if !replica.C08RestartHandshake(c.leader, followerID) {
		t.Fatalf("setup: handshake did not succeed")
	}
	lq := c.leaderQ.Queue()
	t.Logf("after handshake: leader appended=%d consumed=%d ack=%d, follower appended=%d",
		lq.AppendedSeq(), c.group().ConsumedSeq(), c.group().AcknowledgedSeq(), c.followerQ().AppendedSeq())
	if c.group().ConsumedSeq() > lq.AppendedSeq() {
		t.Errorf("leader counts position %d as sent, but its log ends at %d", c.group().ConsumedSeq(), lq.AppendedSeq())
	}
	// the leader accepts new writes
	first := lq.AppendedSeq() + 1
	for _, m := range []string{"n0-new", "n1-new"} {
		if err := c.leader.WriteLog([]byte(m)); err != nil {
			t.Fatal(err)
		}
	}
	c.drain(10)
	for s := first; s <= lq.AppendedSeq(); s++ {
		lb, err := lq.Get(s)
		if err != nil {
			continue
		}
		fb, ferr := c.followerQ().Get(s)
		if ferr != nil {
			t.Errorf("position %d: leader holds %q, follower holds nothing (%v)", s, lb, ferr)
		} else if !bytes.Equal(lb, fb) {
			t.Errorf("position %d: leader holds %q, follower holds %q - a write the leader accepted after the handshake never reached the follower", s, lb, fb)
		}
	}
}
