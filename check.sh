#!/bin/sh
# usage: check.sh <property id> [quick|thorough]
# Rebuilds nothing from /verif except (if missing) the verifier binary; loads /repo's
# current working tree with -tags verif on every run.
export GOFLAGS=-mod=mod GOPROXY=off GOSUMDB=off GOTOOLCHAIN=local
cd /verif || exit 2
if [ ! -x /verif/bin/govc ] || [ -n "$(find /verif/govc -name '*.go' -newer /verif/bin/govc 2>/dev/null | head -1)" ]; then
  (cd /verif/govc && go build -o /verif/bin/govc .) || exit 2
fi
TIER=${2:-${VERIF_TIER:-quick}}
exec /verif/bin/govc check -prop "$1" -tier "$TIER"
