package main

import (
	"fmt"
	"strings"
)

// replay writes the replay file for a failed obligation. When the solver produced a
// model and the function has a replayable signature, the model is run against the real
// code (see replay_go.go); otherwise the file carries the obligation and solver output.
func (e *Engine) replay(v *FV, o *Obligation, dir string) (path string, reproduced bool) {
	var b strings.Builder
	fmt.Fprintf(&b, "obligation: %s\nkind: %s\nfunction: %s\nposition: %s\nclause: %s\n", o.Name, o.Kind, o.Fn, o.Pos, o.Text)
	fmt.Fprintf(&b, "solver status: %s (%s, %.2fs)\nper solver: %v\n", o.Res.Status, o.Res.Solver, o.Res.Time, o.Res.Details)
	if o.Res.Status == "sat" {
		fmt.Fprintf(&b, "\nsolver model (inputs):\n%s\n", modelPart(o.Res.Output))
		if v != nil && v.top != nil {
			rep, ok, txt := e.replayGo(v, o)
			b.WriteString("\n--- replay on the real code ---\n")
			b.WriteString(txt)
			if rep && ok {
				reproduced = true
			}
		}
	} else {
		fmt.Fprintf(&b, "\nno model: the solver answered %s; the obligation was discharged on the unchanged tree and is not discharged now\nsolver output:\n%s\n", o.Res.Status, truncate(o.Res.Output, 2000))
	}
	if !reproduced {
		b.WriteString("\nresult: no-failing-input-found\n")
	} else {
		b.WriteString("\nresult: counterexample reproduced on the real code\n")
	}
	path = writeReplay(dir, mangle(o.Name), b.String())
	return path, reproduced
}

func modelPart(out string) string {
	i := strings.Index(out, "\n")
	if i < 0 {
		return ""
	}
	return truncate(strings.TrimSpace(out[i+1:]), 4000)
}
