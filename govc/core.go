package main

import (
	"fmt"
	"go/constant"
	"go/token"
	"go/types"
	"math/big"
	"sort"
	"strings"
	"sync"

	"golang.org/x/tools/go/packages"
	"golang.org/x/tools/go/ssa"
)

type Term = string

type Mode int

const (
	ModeBV Mode = iota
	ModeMath
)

// Engine holds what is shared between function verifications.
type Engine struct {
	prog     *ssa.Program
	pkgs     []*packages.Package
	pkgByID  map[string]*packages.Package
	fset     *token.FileSet
	db       *SpecDB
	fnByKey  map[string]*ssa.Function
	timeoutS int
	allSolv  bool
	verbose  bool
	dumpDir  string
	repo     string
}

// TV is a typed SMT value.
type TV struct {
	T    Term
	Ty   types.Type     // nil for untyped constant
	Sort string         // SMT sort (may differ from sortOf(Ty) for ghost values)
	CV   constant.Value // for untyped constants
}

type Obligation struct {
	Name      string
	Kind      string
	Fn        string
	Pos       string
	Text      string // source text of the clause, if any
	Reach     Term
	Goal      Term
	ScriptLen int
	Expect    string // "unsat" normally; "sat" for cover/smoke
	Res       SolverResult
	Script    string
	Inputs    []string    // names of SMT constants that are inputs (for replay)
	Lemma     bool        // smoke of a lemma: all its named hypotheses are part of the script
	Before    *Obligation // cover pairs: reachability just before the assumed contract
}

// FV verifies one function (with its inlined callees).
type FV struct {
	useClock       bool // the contracts in play use now(): keep a logical clock
	imkCtr         int
	inGlobalInv    bool
	ptrLocs        map[Term]*Loc // pointer terms that denote locations inside values (element / field-of-element addresses)
	noTriggers     bool          // proving a lemma: its own trigger annotations are not emitted
	inBinder       int           // >0 while translating the body of a quantifier
	eng            *Engine
	top            *ssa.Function
	con            *Contract
	mode           Mode
	preamble       []string
	preSeen        map[string]bool
	script         []string
	arrays         map[string]string // heap array name -> sort
	refArrays      map[string]bool   // arrays whose Int elements are references
	freshSet       map[string]bool   // reference terms allocated by this function
	curSt          *State            // state of the instruction being executed (allocation counter lives in its heap)
	regions        bool              // split every heap array into pre-existing / newly allocated objects
	sliceArr       map[string]Term   // defined slice name -> its backing array ref term (when statically known)
	stableArrays   map[string]bool   // field arrays that survive havoc (stable declarations)
	protectedCells []protectedCell
	obls           []*Obligation
	ctr            int
	epochCtr       int
	fresh          []Term // fresh refs allocated so far
	n0             Term
	quiet          int // >0: obligations suppressed (pure evaluation)
	assumed        map[string]bool
	trusted        map[string]bool // external contracts / assumptions used
	notes          []string
	oblNames       map[string]int
	strLits        map[string]Term
	inputs         []string
	kindCount      map[string]int
	unsupported    []string
	curFnKey       string
	inlineStack    []string
	locksetOK      int
	topFrame       *Frame
	curFrame       *Frame
	ghostAfterHits map[string]int // ghost_after clause -> number of calls it matched (0 = the clause binds nothing)
	deferDepths    []int          // frame depths of the deferred functions being run (innermost last)
	sections       map[string]int // lock field -> critical sections entered by the top function on its receiver
	serialGroups   map[string]map[string]bool // lock field -> acquisitions of a serializing lock during which sections of it were entered
	serialAcq      map[string]string          // held-key of a serializing lock -> position of its last acquisition
	subCtr         int
	axioms         []axiomTerm
	axMu           sync.Mutex
}

func (v *FV) idx() string {
	if v.mode == ModeMath {
		return "Int"
	}
	return "(_ BitVec 64)"
}

func mangle(s string) string {
	var b strings.Builder
	for _, r := range s {
		if (r >= 'a' && r <= 'z') || (r >= 'A' && r <= 'Z') || (r >= '0' && r <= '9') || r == '_' {
			b.WriteRune(r)
		} else {
			b.WriteByte('_')
		}
	}
	return b.String()
}

func shortPkg(p string) string {
	if i := strings.LastIndex(p, "/"); i >= 0 {
		return p[i+1:]
	}
	return p
}

func typeKey(t types.Type) string {
	switch t := t.(type) {
	case *types.Named:
		o := t.Obj()
		if o.Pkg() != nil {
			return o.Pkg().Path() + "." + o.Name()
		}
		return o.Name()
	case *types.Alias:
		return typeKey(types.Unalias(t))
	case *types.Pointer:
		return typeKey(t.Elem())
	}
	return t.String()
}

func typeShort(t types.Type) string {
	switch t := t.(type) {
	case *types.Named:
		o := t.Obj()
		if o.Pkg() != nil {
			return shortPkg(o.Pkg().Path()) + "_" + o.Name()
		}
		return o.Name()
	case *types.Alias:
		return typeShort(types.Unalias(t))
	}
	return mangle(t.String())
}

func (v *FV) pre(key, line string) {
	if v.preSeen[key] {
		return
	}
	v.preSeen[key] = true
	v.preamble = append(v.preamble, line)
}

func (v *FV) emit(line string) { v.script = append(v.script, line) }

func (v *FV) freshName(prefix string) string {
	v.ctr++
	return fmt.Sprintf("%s!%d", mangle(prefix), v.ctr)
}

func (v *FV) declare(prefix, sort string) Term {
	n := v.freshName(prefix)
	v.emit(fmt.Sprintf("(declare-const %s %s)", n, sort))
	return n
}

func (v *FV) define(prefix, sort string, t Term) Term {
	if len(t) < 24 && !strings.ContainsAny(t, " ") {
		return t
	}
	if v.inBinder > 0 {
		return t // the term may mention a bound variable: no top-level definition
	}
	n := v.freshName(prefix)
	v.emit(fmt.Sprintf("(define-fun %s () %s %s)", n, sort, t))
	return n
}

func (v *FV) assume(reach Term, fact Term) {
	if fact == "true" {
		return
	}
	if reach == "true" {
		v.emit(fmt.Sprintf("(assert %s)", fact))
	} else {
		v.emit(fmt.Sprintf("(assert (=> %s %s))", reach, fact))
	}
}

func (v *FV) oblige(kind, label, pos, text string, reach, goal Term) {
	if v.quiet > 0 {
		return
	}
	if goal == "true" {
		return
	}
	base := v.curFnKey + "#" + kind
	if label != "" {
		base += "." + label
	}
	v.oblNames[base]++
	name := base
	if label == "" || v.oblNames[base] > 1 {
		name = fmt.Sprintf("%s.%d", base, v.oblNames[base])
	}
	v.obls = append(v.obls, &Obligation{Name: name, Kind: kind, Fn: v.curFnKey, Pos: pos, Text: text, Reach: reach, Goal: goal, ScriptLen: len(v.script), Expect: "unsat"})
}

// ---------- sorts

func (v *FV) intLit(n *big.Int, bits int) Term {
	if v.mode == ModeMath {
		if n.Sign() < 0 {
			return fmt.Sprintf("(- %s)", new(big.Int).Neg(n).String())
		}
		return n.String()
	}
	m := new(big.Int).Set(n)
	if m.Sign() < 0 {
		m.Add(m, new(big.Int).Lsh(big.NewInt(1), uint(bits)))
	}
	m.And(m, new(big.Int).Sub(new(big.Int).Lsh(big.NewInt(1), uint(bits)), big.NewInt(1)))
	return fmt.Sprintf("(_ bv%s %d)", m.String(), bits)
}

func (v *FV) idxLit(n int64) Term { return v.intLit(big.NewInt(n), 64) }

func intInfo(t types.Type) (bits int, signed bool, ok bool) {
	b, isB := t.Underlying().(*types.Basic)
	if !isB {
		return 0, false, false
	}
	switch b.Kind() {
	case types.Int, types.Int64, types.UntypedInt, types.UntypedRune:
		return 64, true, true
	case types.Int32:
		return 32, true, true
	case types.Int16:
		return 16, true, true
	case types.Int8:
		return 8, true, true
	case types.Uint, types.Uint64, types.Uintptr:
		return 64, false, true
	case types.Uint32:
		return 32, false, true
	case types.Uint16:
		return 16, false, true
	case types.Uint8:
		return 8, false, true
	}
	return 0, false, false
}

func isFloat(t types.Type) bool {
	b, ok := t.Underlying().(*types.Basic)
	return ok && (b.Kind() == types.Float64 || b.Kind() == types.Float32 || b.Kind() == types.UntypedFloat)
}

func isString(t types.Type) bool {
	b, ok := t.Underlying().(*types.Basic)
	return ok && (b.Kind() == types.String || b.Kind() == types.UntypedString)
}

func isBool(t types.Type) bool {
	b, ok := t.Underlying().(*types.Basic)
	return ok && (b.Kind() == types.Bool || b.Kind() == types.UntypedBool)
}

func (v *FV) sortOf(t types.Type) string {
	t = types.Unalias(t)
	switch u := t.Underlying().(type) {
	case *types.Basic:
		if bits, _, ok := intInfo(t); ok {
			if v.mode == ModeMath {
				return "Int"
			}
			return fmt.Sprintf("(_ BitVec %d)", bits)
		}
		switch u.Kind() {
		case types.Bool, types.UntypedBool:
			return "Bool"
		case types.Float64, types.Float32, types.UntypedFloat:
			v.pre("sort F64", "(declare-sort F64 0)")
			return "F64"
		case types.String, types.UntypedString:
			v.declStr()
			return "Str"
		}
		return "Int"
	case *types.Struct:
		return v.structSort(t, u)
	case *types.Slice:
		v.declSlice()
		return "Slice"
	case *types.Array:
		return fmt.Sprintf("(Array %s %s)", v.idx(), v.sortOf(u.Elem()))
	case *types.Tuple:
		return "Int"
	}
	return "Int"
}

func (v *FV) declStr() {
	v.pre("sort Str", "(declare-sort Str 0)")
	v.pre("str_len", fmt.Sprintf("(declare-fun str_len (Str) %s)", v.idx()))
	if v.mode == ModeMath {
		v.pre("str_len_ax", "(assert (forall ((s Str)) (! (>= (str_len s) 0) :pattern ((str_len s)))))")
	} else {
		v.pre("str_len_ax", "(assert (forall ((s Str)) (! (bvsge (str_len s) (_ bv0 64)) :pattern ((str_len s)))))")
	}
	v.pre("str_cat", "(declare-fun str_cat (Str Str) Str)")
	v.pre("str_empty", "(declare-const str_empty Str)")
	v.pre("str_empty_len", fmt.Sprintf("(assert (= (str_len str_empty) %s))", v.idxLit(0)))
}

func (v *FV) declSlice() {
	v.pre("sort Slice", fmt.Sprintf("(declare-datatypes ((Slice 0)) (((mk_slice (sl_arr Int) (sl_off %s) (sl_len %s) (sl_cap %s)))))", v.idx(), v.idx(), v.idx()))
}

func (v *FV) structSort(t types.Type, u *types.Struct) string {
	name := "S_" + typeShort(t)
	if v.preSeen["struct "+name] {
		return name
	}
	v.preSeen["struct "+name] = true
	var fs []string
	for i := 0; i < u.NumFields(); i++ {
		fs = append(fs, fmt.Sprintf("(%s_%s %s)", name, mangle(u.Field(i).Name())+fmt.Sprint(i), v.sortOf(u.Field(i).Type())))
	}
	if len(fs) == 0 {
		fs = append(fs, fmt.Sprintf("(%s_dummy Bool)", name))
	}
	v.preamble = append(v.preamble, fmt.Sprintf("(declare-datatypes ((%s 0)) (((mk_%s %s))))", name, name, strings.Join(fs, " ")))
	return name
}

func (v *FV) structSel(t types.Type, i int) string {
	u := t.Underlying().(*types.Struct)
	name := v.structSort(t, u)
	return fmt.Sprintf("%s_%s", name, mangle(u.Field(i).Name())+fmt.Sprint(i))
}

func (v *FV) zero(t types.Type) Term {
	t = types.Unalias(t)
	switch u := t.Underlying().(type) {
	case *types.Basic:
		if bits, _, ok := intInfo(t); ok {
			return v.intLit(big.NewInt(0), bits)
		}
		switch u.Kind() {
		case types.Bool, types.UntypedBool:
			return "false"
		case types.Float64, types.Float32, types.UntypedFloat:
			return v.floatConst("0")
		case types.String, types.UntypedString:
			v.declStr()
			return "str_empty"
		}
		return "0"
	case *types.Struct:
		name := v.structSort(t, u)
		if u.NumFields() == 0 {
			return fmt.Sprintf("(mk_%s false)", name)
		}
		var fs []string
		for i := 0; i < u.NumFields(); i++ {
			fs = append(fs, v.zero(u.Field(i).Type()))
		}
		return fmt.Sprintf("(mk_%s %s)", name, strings.Join(fs, " "))
	case *types.Slice:
		v.declSlice()
		return fmt.Sprintf("(mk_slice 0 %s %s %s)", v.idxLit(0), v.idxLit(0), v.idxLit(0))
	case *types.Array:
		return v.constArray(v.idx(), v.sortOf(u.Elem()), v.zero(u.Elem()))
	}
	return "0"
}

func (v *FV) floatConst(lit string) Term {
	v.pre("sort F64", "(declare-sort F64 0)")
	name := "f64c_" + mangle(lit)
	v.pre("fc "+name, fmt.Sprintf("(declare-const %s F64)", name))
	return name
}

func (v *FV) strLit(s string) Term {
	v.declStr()
	if s == "" {
		return "str_empty"
	}
	if t, ok := v.strLits[s]; ok {
		return t
	}
	name := fmt.Sprintf("strlit_%d_%s", len(v.strLits), mangle(truncate(s, 16)))
	v.preamble = append(v.preamble, fmt.Sprintf("(declare-const %s Str)", name))
	v.preamble = append(v.preamble, fmt.Sprintf("(assert (= (str_len %s) %s))", name, v.idxLit(int64(len(s)))))
	for _, o := range sortedVals(v.strLits) {
		v.preamble = append(v.preamble, fmt.Sprintf("(assert (distinct %s %s))", name, o))
	}
	v.strLits[s] = name
	return name
}

func truncate(s string, n int) string {
	if len(s) > n {
		return s[:n]
	}
	return s
}

func sortedVals(m map[string]Term) []Term {
	var r []Term
	for _, x := range m {
		r = append(r, x)
	}
	sort.Strings(r)
	return r
}

// range assumption for a value of integer type in math mode
func (v *FV) rangeFact(t Term, ty types.Type) Term {
	if v.mode != ModeMath {
		return "true"
	}
	bits, signed, ok := intInfo(ty)
	if !ok {
		return "true"
	}
	lo, hi := intRange(bits, signed)
	return fmt.Sprintf("(and (<= %s %s) (<= %s %s))", v.intLit(lo, bits), t, t, v.intLit(hi, bits))
}

func intRange(bits int, signed bool) (*big.Int, *big.Int) {
	one := big.NewInt(1)
	if signed {
		hi := new(big.Int).Sub(new(big.Int).Lsh(one, uint(bits-1)), one)
		lo := new(big.Int).Neg(new(big.Int).Lsh(one, uint(bits-1)))
		return lo, hi
	}
	return big.NewInt(0), new(big.Int).Sub(new(big.Int).Lsh(one, uint(bits)), one)
}

// typeFacts: assumptions that hold for any well-formed value of type ty (ranges of
// integers, non-negative lengths).
func (v *FV) typeFacts(t Term, ty types.Type) Term {
	ty = types.Unalias(ty)
	switch u := ty.Underlying().(type) {
	case *types.Basic:
		return v.rangeFact(t, ty)
	case *types.Slice:
		z := v.idxLit(0)
		le := v.cmpOp("<=", true)
		base := fmt.Sprintf("(and (%s %s (sl_off %s)) (%s %s (sl_len %s)) (%s (sl_len %s) (sl_cap %s)) (>= (sl_arr %s) 0))", le, z, t, le, z, t, le, t, t, t)
		if sz := types.SizesFor("gc", "amd64").Sizeof(u.Elem()); sz > 0 && v.mode == ModeBV {
			// the runtime cannot allocate more than 2^48 bytes (maxAlloc on 64-bit linux)
			v.trusted["runtime: a slice of non-empty elements spans at most 2^48 elements (maxAlloc)"] = true
			lim := v.idxLit(1 << 48)
			return fmt.Sprintf("(and %s (%s (sl_off %s) %s) (%s (sl_cap %s) %s))", base, le, t, lim, le, t, lim)
		}
		if v.mode == ModeMath {
			// lengths are Go ints
			return fmt.Sprintf("(and %s (<= (sl_cap %s) 9223372036854775807))", base, t)
		}
		return base
	case *types.Struct:
		var fs []string
		for i := 0; i < u.NumFields(); i++ {
			f := v.typeFacts(fmt.Sprintf("(%s %s)", v.structSel(ty, i), t), u.Field(i).Type())
			if f != "true" {
				fs = append(fs, f)
			}
		}
		if len(fs) == 0 {
			return "true"
		}
		return "(and " + strings.Join(fs, " ") + ")"
	case *types.Pointer, *types.Map, *types.Interface, *types.Signature, *types.Chan:
		return fmt.Sprintf("(>= %s 0)", t)
	}
	return "true"
}

func (v *FV) cmpOp(op string, signed bool) string {
	if v.mode == ModeMath {
		return op
	}
	switch op {
	case "<":
		if signed {
			return "bvslt"
		}
		return "bvult"
	case "<=":
		if signed {
			return "bvsle"
		}
		return "bvule"
	case ">":
		if signed {
			return "bvsgt"
		}
		return "bvugt"
	case ">=":
		if signed {
			return "bvsge"
		}
		return "bvuge"
	}
	return op
}

// ---------- heap epochs

type Epoch struct {
	initial bool
	id      int
	kind    int // 0 root/havoc-all, 1 merge, 2 partial havoc
	parents []condSnap
	parent  *Snapshot
	mod     map[string]bool
	memo    map[string]Term
}

type condSnap struct {
	cond Term
	snap *Snapshot
}

type Snapshot struct {
	ep   *Epoch
	over map[string]Term
}

func (v *FV) newEpoch(kind int) *Epoch {
	v.epochCtr++
	return &Epoch{id: v.epochCtr, kind: kind, memo: map[string]Term{}}
}

func (s *Snapshot) clone() *Snapshot {
	n := &Snapshot{ep: s.ep, over: make(map[string]Term, len(s.over))}
	for k, x := range s.over {
		n.over[k] = x
	}
	return n
}

func (v *FV) arrSort(name string) string {
	s, ok := v.arrays[name]
	if !ok {
		panic("unknown heap array " + name)
	}
	return s
}

func (v *FV) regArray(name, sort string) {
	if old, ok := v.arrays[name]; ok && old != sort {
		panic(fmt.Sprintf("heap array %s registered with sorts %s and %s", name, old, sort))
	}
	v.arrays[name] = sort
	if !strings.HasSuffix(name, "$n") && name != "TOP" {
		// second physical array for objects allocated during the function (refs > N0):
		// writes to new objects leave the array of the pre-existing objects untouched
		v.arrays[name+"$n"] = sort
	}
}

// side classifies a reference term statically: 1 = pre-existing object, 2 = allocated
// by this function, 0 = unknown (decided by the solver: root(ref) > N0).
func (v *FV) side(ref Term) int {
	if !v.regions {
		return 1 // single physical array per field (contract clause "regions" turns the split on)
	}
	if v.freshSet[ref] {
		return 2
	}
	if strings.HasPrefix(ref, "in_") || strings.HasPrefix(ref, "glob_") || strings.HasPrefix(ref, "fn_") || ref == "0" {
		return 1
	}
	if strings.HasPrefix(ref, "(sub_") {
		// (sub_T_f X): same side as X
		if i := strings.Index(ref, " "); i > 0 && strings.HasSuffix(ref, ")") {
			return v.side(ref[i+1 : len(ref)-1])
		}
	}
	return 0
}

func (v *FV) isNew(ref Term) Term {
	v.pre("ref_root", "(declare-fun ref_root (Int) Int)")
	v.pre("ref_root_ax", "(assert (forall ((r Int)) (! (=> (>= r 0) (= (ref_root r) r)) :pattern ((ref_root r)))))")
	return fmt.Sprintf("(> (ref_root %s) N0!)", ref)
}

// rd reads heap array arr at object ref.
func (v *FV) rd(s *Snapshot, arr string, ref Term) Term {
	switch v.side(ref) {
	case 1:
		return fmt.Sprintf("(select %s %s)", v.heapGet(s, arr), ref)
	case 2:
		return fmt.Sprintf("(select %s %s)", v.heapGet(s, arr+"$n"), ref)
	}
	return fmt.Sprintf("(ite %s (select %s %s) (select %s %s))", v.isNew(ref), v.heapGet(s, arr+"$n"), ref, v.heapGet(s, arr), ref)
}

// wr writes heap array arr at object ref.
func (v *FV) wr(s *Snapshot, arr string, ref Term, val Term) {
	switch v.side(ref) {
	case 1:
		v.heapSet(s, arr, fmt.Sprintf("(store %s %s %s)", v.heapGet(s, arr), ref, val))
		return
	case 2:
		v.heapSet(s, arr+"$n", fmt.Sprintf("(store %s %s %s)", v.heapGet(s, arr+"$n"), ref, val))
		return
	}
	c := v.define("isnew", "Bool", v.isNew(ref))
	vv := v.define("wrval", strings.TrimSuffix(strings.TrimPrefix(v.arrSort(arr), "(Array Int "), ")"), val)
	ho, hn := v.heapGet(s, arr), v.heapGet(s, arr+"$n")
	v.heapSet(s, arr, fmt.Sprintf("(ite %s %s (store %s %s %s))", c, ho, ho, ref, vv))
	v.heapSet(s, arr+"$n", fmt.Sprintf("(ite %s (store %s %s %s) %s)", c, hn, ref, vv, hn))
}

func (v *FV) heapGet(s *Snapshot, name string) Term {
	if t, ok := s.over[name]; ok {
		return t
	}
	return v.epochGet(s.ep, name)
}

func (v *FV) epochGet(e *Epoch, name string) Term {
	if t, ok := e.memo[name]; ok {
		return t
	}
	var t Term
	switch e.kind {
	case 0:
		t = fmt.Sprintf("%s@%d", name, e.id)
		v.emit(fmt.Sprintf("(declare-const %s %s)", t, v.arrSort(name)))
		if v.arrSort(name) == "(Array Int Slice)" {
			// every slice value stored in the heap is well formed (a property of Go values)
			le := v.cmpOp("<=", true)
			z := v.idxLit(0)
			v.emit(fmt.Sprintf("(assert (forall ((r Int)) (! (and (%s %s (sl_off (select %s r))) (%s %s (sl_len (select %s r))) (%s (sl_len (select %s r)) (sl_cap (select %s r)))) :pattern ((select %s r)))))", le, z, t, le, z, t, le, t, t, t))
		}
		if v.arrSort(name) == "(Array Int Slice)" {
			v.sliceFieldsAllocated(e, t)
		}
		if e.initial && v.arrSort(name) == "(Array Int Slice)" {
			v.emit(fmt.Sprintf("(assert (forall ((r Int)) (! (=> (<= r N0!) (<= (sl_arr (select %s r)) N0!)) :pattern ((select %s r)))))", t, t))
		}
		if !e.initial && v.refArrays[strings.TrimSuffix(name, "$n")] {
			v.refFieldsAllocated(e, name, t)
		}
		if e.initial && v.refArrays[name] {
			// well-formed initial heap: references stored in it existed before the call
			switch {
			case v.arrSort(name) == "(Array Int Int)":
				v.emit(fmt.Sprintf("(assert (forall ((r Int)) (! (=> (<= r N0!) (<= (select %s r) N0!)) :pattern ((select %s r)))))", t, t))
			case strings.HasSuffix(v.arrSort(name), " Int))") && strings.HasPrefix(v.arrSort(name), "(Array Int (Array "):
				inner := strings.TrimSuffix(strings.TrimPrefix(v.arrSort(name), "(Array Int (Array "), " Int))")
				v.emit(fmt.Sprintf("(assert (forall ((r Int) (k %s)) (! (=> (<= r N0!) (<= (select (select %s r) k) N0!)) :pattern ((select (select %s r) k)))))", inner, t, t))
			}
		}
	case 1:
		terms := make([]Term, len(e.parents))
		same := true
		for i, p := range e.parents {
			terms[i] = v.heapGet(p.snap, name)
			if terms[i] != terms[0] {
				same = false
			}
		}
		if same {
			t = terms[0]
		} else {
			expr := terms[len(terms)-1]
			for i := len(terms) - 2; i >= 0; i-- {
				expr = fmt.Sprintf("(ite %s %s %s)", e.parents[i].cond, terms[i], expr)
			}
			t = fmt.Sprintf("%s@%d", name, e.id)
			v.emit(fmt.Sprintf("(define-fun %s () %s %s)", t, v.arrSort(name), expr))
		}
	case 2:
		if e.mod == nil || e.mod[name] {
			t = fmt.Sprintf("%s@%d", name, e.id)
			v.emit(fmt.Sprintf("(declare-const %s %s)", t, v.arrSort(name)))
			if v.refArrays[strings.TrimSuffix(name, "$n")] {
				v.refFieldsAllocated(e, name, t)
			}
			if v.arrSort(name) == "(Array Int Slice)" {
				le := v.cmpOp("<=", true)
				z := v.idxLit(0)
				v.emit(fmt.Sprintf("(assert (forall ((r Int)) (! (and (%s %s (sl_off (select %s r))) (%s %s (sl_len (select %s r))) (%s (sl_len (select %s r)) (sl_cap (select %s r)))) :pattern ((select %s r)))))", le, z, t, le, z, t, le, t, t, t))
				v.sliceFieldsAllocated(e, t)
			}
		} else {
			t = v.heapGet(e.parent, name)
		}
	}
	e.memo[name] = t
	return t
}

// sliceFieldsAllocated: the backing array of a slice stored in an object that exists (below the
// allocation counter of this epoch) exists as well.
func (v *FV) sliceFieldsAllocated(e *Epoch, t Term) {
	if _, ok := v.arrays["TOP"]; !ok {
		return
	}
	top := fmt.Sprintf("(select %s 0)", v.epochGet(e, "TOP"))
	v.emit(fmt.Sprintf("(assert (forall ((r Int)) (! (=> (< r %s) (< (sl_arr (select %s r)) %s)) :pattern ((select %s r)))))", top, t, top, t))
}

// refFieldsAllocated: a reference stored in the heap refers to an object that exists (it lies below the
// allocation counter of this epoch; nil and sub-object references are below it anyway).
func (v *FV) refFieldsAllocated(e *Epoch, name string, t Term) {
	if _, ok := v.arrays["TOP"]; !ok || name == "TOP" {
		return
	}
	top := fmt.Sprintf("(select %s 0)", v.epochGet(e, "TOP"))
	switch {
	case v.arrSort(name) == "(Array Int Int)":
		v.emit(fmt.Sprintf("(assert (forall ((r Int)) (! (< (select %s r) %s) :pattern ((select %s r)))))", t, top, t))
	case strings.HasSuffix(v.arrSort(name), " Int))") && strings.HasPrefix(v.arrSort(name), "(Array Int (Array "):
		inner := strings.TrimSuffix(strings.TrimPrefix(v.arrSort(name), "(Array Int (Array "), " Int))")
		v.emit(fmt.Sprintf("(assert (forall ((r Int) (k %s)) (! (< (select (select %s r) k) %s) :pattern ((select (select %s r) k)))))", inner, t, top, t))
	}
}

func (v *FV) heapSet(s *Snapshot, name string, t Term) {
	n := v.define(name, v.arrSort(name), t)
	s.over[name] = n
}

// assumeGlobalInvs: declared invariants of package variables (error values are non-nil, the calculators have
// their types) hold in every state - nothing under contract assigns these variables.
func (v *FV) assumeGlobalInvs(s *Snapshot) {
	if v.top == nil || v.top.Pkg == nil || v.inGlobalInv {
		return
	}
	v.inGlobalInv = true
	defer func() { v.inGlobalInv = false }()
	for _, gi := range v.eng.db.GlobalInvs {
		if gi.Pkg != v.top.Pkg.Pkg.Path() {
			continue
		}
		genv := &ExprEnv{v: v, vars: map[string]TV{}, snap: s, pkg: v.top.Pkg.Pkg, what: "globalinv"}
		if t, err := genv.EvalBool(gi.Text); err == nil {
			v.assume("true", t)
		}
	}
}

func (v *FV) havocAll(s *Snapshot) {
	prev := &Snapshot{ep: s.ep, over: s.over}
	s.ep = v.newEpoch(0)
	s.over = map[string]Term{}
	v.preserveAcrossHavoc(prev, s)
}

// preserveAcrossHavoc carries over what foreign code cannot change: the ghost call trace,
// fields declared stable, and private / effectively-final local variable cells.
func (v *FV) preserveAcrossHavoc(prev, s *Snapshot) {
	v.preserveAcrossHavocIn(prev, s, nil)
}

// loopBody != nil: havoc at a loop head; cells assigned inside the loop are not preserved.
func (v *FV) preserveAcrossHavocIn(prev, s *Snapshot, loopBody map[*ssa.BasicBlock]bool) {
	v.assumeGlobalInvs(s)
	if _, ok := v.arrays["TOP"]; ok {
		// objects are never un-allocated
		v.emit(fmt.Sprintf("(assert (>= %s %s))", v.topOf(s), v.topOf(prev)))
	}
	for _, g := range []string{"CALLS", "ARGNN", "ARGV", "LOCKED", "CLOCK", "STAMP", "RESNIL", "CALLS$n", "ARGNN$n", "ARGV$n", "LOCKED$n", "STAMP$n", "RESNIL$n"} {
		if _, ok := v.arrays[g]; ok {
			s.over[g] = v.heapGet(prev, g)
		}
	}
	for a := range v.stableArrays {
		s.over[a] = v.heapGet(prev, a)
		s.over[a+"$n"] = v.heapGet(prev, a+"$n")
	}
	for _, pc := range v.protectedCells {
		if _, isStable := v.stableArrays[pc.arr]; isStable {
			continue
		}
		if loopBody != nil && !pc.final && storedInBlocks(pc.alloc, loopBody) {
			continue
		}
		val := v.define("keepcell", strings.TrimSuffix(strings.TrimPrefix(v.arrSort(pc.arr), "(Array Int "), ")"), v.rd(prev, pc.arr, pc.ref))
		v.wr(s, pc.arr, pc.ref, val)
	}
}

type protectedCell struct {
	arr, ref string
	alloc    ssa.Value // *ssa.Alloc or *ssa.FreeVar
	final    bool      // never assigned after initialisation
}

func (v *FV) mergeSnaps(cs []condSnap) *Snapshot {
	if len(cs) == 1 {
		return cs[0].snap.clone()
	}
	// fast path: same epoch → merge overrides only
	e := v.newEpoch(1)
	e.parents = cs
	return &Snapshot{ep: e, over: map[string]Term{}}
}

// field array helpers

func (v *FV) fieldArray(structT types.Type, i int) (string, types.Type) {
	u := structT.Underlying().(*types.Struct)
	f := u.Field(i)
	name := fmt.Sprintf("H_%s_%s", typeShort(structT), mangle(f.Name()))
	v.regArray(name, fmt.Sprintf("(Array Int %s)", v.sortOf(f.Type())))
	if v.isRefLike(f.Type()) {
		v.refArrays[name] = true
	}
	if v.eng.db.Stable[typeKey(structT)+"."+f.Name()] {
		v.stableArrays[name] = true
	}
	return name, f.Type()
}

func (v *FV) cellArray(t types.Type) string {
	if at, ok := t.Underlying().(*types.Array); ok {
		// an array variable is a backing store: slices of it alias it
		return v.elemArray(at.Elem())
	}
	s := v.sortOf(t)
	name := "C_" + mangle(s)
	v.regArray(name, fmt.Sprintf("(Array Int %s)", s))
	return name
}

func (v *FV) elemArray(elem types.Type) string {
	s := v.sortOf(elem)
	name := "E_" + mangle(s)
	if s == "Int" {
		// references: one backing-store array per element type (slices of different pointer /
		// interface types cannot alias without unsafe)
		if _, isBasic := elem.Underlying().(*types.Basic); !isBasic {
			name += "_" + mangle(typeShort(types.Unalias(elem)))
		}
	}
	if v.mode == ModeMath {
		// all integer types share the sort Int in math mode: keep the backing stores of
		// differently typed slices apart (Go cannot alias them without unsafe)
		if b, ok := elem.Underlying().(*types.Basic); ok && b.Info()&types.IsInteger != 0 && b.Kind() != types.Int && b.Kind() != types.Int64 {
			name += "_" + b.Name()
		}
	}
	v.regArray(name, fmt.Sprintf("(Array Int (Array %s %s))", v.idx(), s))
	return name
}

func (v *FV) subRef(structT types.Type, i int, base Term) Term {
	u := structT.Underlying().(*types.Struct)
	fn := fmt.Sprintf("sub_%s_%s", typeShort(structT), mangle(u.Field(i).Name()))
	v.pre("fn "+fn, fmt.Sprintf("(declare-fun %s (Int) Int)", fn))
	v.pre("fninv "+fn, fmt.Sprintf("(declare-fun inv_%s (Int) Int)", fn))
	if !v.preSeen["fnax "+fn] {
		v.subCtr++
		v.pre("sub_tag", "(declare-fun sub_tag (Int) Int)")
		v.pre("ref_root", "(declare-fun ref_root (Int) Int)")
		v.pre("ref_root_ax", "(assert (forall ((r Int)) (! (=> (>= r 0) (= (ref_root r) r)) :pattern ((ref_root r)))))")
		v.pre("rootax "+fn, fmt.Sprintf("(assert (forall ((p Int)) (! (= (ref_root (%s p)) (ref_root p)) :pattern ((%s p)))))", fn, fn))
		v.pre("fnax "+fn, fmt.Sprintf("(assert (forall ((p Int)) (! (and (= (inv_%s (%s p)) p) (< (%s p) 0) (= (sub_tag (%s p)) %d)) :pattern ((%s p)))))", fn, fn, fn, fn, v.subCtr, fn))
	}
	return fmt.Sprintf("(%s %s)", fn, base)
}

// loadStruct assembles a struct value from the field arrays at ref.
func (v *FV) loadStruct(s *Snapshot, t types.Type, ref Term) Term {
	u := t.Underlying().(*types.Struct)
	name := v.structSort(t, u)
	if u.NumFields() == 0 {
		return fmt.Sprintf("(mk_%s false)", name)
	}
	var fs []string
	for i := 0; i < u.NumFields(); i++ {
		fs = append(fs, v.loadField(s, t, i, ref))
	}
	return fmt.Sprintf("(mk_%s %s)", name, strings.Join(fs, " "))
}

func (v *FV) loadField(s *Snapshot, t types.Type, i int, ref Term) Term {
	u := t.Underlying().(*types.Struct)
	ft := u.Field(i).Type()
	if _, ok := ft.Underlying().(*types.Struct); ok {
		return v.loadStruct(s, ft, v.subRef(t, i, ref))
	}
	arr, _ := v.fieldArray(t, i)
	return v.rd(s, arr, ref)
}

func (v *FV) storeStruct(s *Snapshot, t types.Type, ref Term, val Term) {
	u := t.Underlying().(*types.Struct)
	for i := 0; i < u.NumFields(); i++ {
		v.storeField(s, t, i, ref, fmt.Sprintf("(%s %s)", v.structSel(t, i), val))
	}
}

func (v *FV) storeField(s *Snapshot, t types.Type, i int, ref Term, val Term) {
	u := t.Underlying().(*types.Struct)
	ft := u.Field(i).Type()
	if _, ok := ft.Underlying().(*types.Struct); ok {
		v.storeStruct(s, ft, v.subRef(t, i, ref), val)
		return
	}
	arr, _ := v.fieldArray(t, i)
	v.wr(s, arr, ref, val)
}

// newRef returns a fresh non-nil reference distinct from everything that existed
// before the function started and from earlier fresh references.
func (v *FV) newRef(prefix string) Term {
	r := v.declare(prefix, "Int")
	v.emit(fmt.Sprintf("(assert (> %s %s))", r, v.n0))
	for _, o := range v.fresh {
		v.emit(fmt.Sprintf("(assert (distinct %s %s))", r, o))
	}
	v.fresh = append(v.fresh, r)
	v.freshSet[r] = true
	if v.curSt != nil {
		// allocation counter: every object that exists is below TOP; a new one is at or above it
		top := v.topOf(v.curSt.snap)
		v.emit(fmt.Sprintf("(assert (=> %s (>= %s %s)))", v.curSt.reach, r, top))
		v.heapSet(v.curSt.snap, "TOP", fmt.Sprintf("(store %s 0 (ite (>= %s %s) (+ %s 1) %s))", v.heapGet(v.curSt.snap, "TOP"), r, top, r, top))
	}
	return r
}

func (v *FV) topOf(s *Snapshot) Term {
	v.regArray("TOP", "(Array Int Int)")
	return fmt.Sprintf("(select %s 0)", v.heapGet(s, "TOP"))
}

// refOK: a reference obtained from the heap, a parameter or a call refers to an object
// that exists now: it existed before the call (<= N0) or was allocated since (below TOP).
func (v *FV) refOK(t Term) Term {
	if v.curSt != nil {
		return fmt.Sprintf("(and (>= %s 0) (< %s %s))", t, t, v.topOf(v.curSt.snap))
	}
	parts := []string{fmt.Sprintf("(and (>= %s 0) (<= %s %s))", t, t, v.n0)}
	for _, o := range v.fresh {
		parts = append(parts, fmt.Sprintf("(= %s %s)", t, o))
	}
	if len(parts) == 1 {
		return parts[0]
	}
	return "(or " + strings.Join(parts, " ") + ")"
}

func posStr(fset *token.FileSet, p token.Pos) string {
	if !p.IsValid() {
		return ""
	}
	ps := fset.Position(p)
	return fmt.Sprintf("%s:%d", strings.TrimPrefix(ps.Filename, "/repo/"), ps.Line)
}

func fnKey(fn *ssa.Function) string {
	if fn == nil {
		return "?"
	}
	if fn.Signature.Recv() != nil {
		rt := fn.Signature.Recv().Type()
		return typeKey(rt) + "." + fn.Name()
	}
	if fn.Parent() != nil {
		// anonymous function: its name already contains the parent's ("Execute$1")
		pk := fnKey(fn.Parent())
		if i := strings.LastIndex(pk, "."); i >= 0 {
			return pk[:i+1] + fn.Name()
		}
		return pk + "$" + fn.Name()
	}
	if fn.Pkg != nil {
		return fn.Pkg.Pkg.Path() + "." + fn.Name()
	}
	if fn.Object() != nil && fn.Object().Pkg() != nil {
		return fn.Object().Pkg().Path() + "." + fn.Name()
	}
	return fn.String()
}

func (v *FV) isRefLike(t types.Type) bool {
	switch u := t.Underlying().(type) {
	case *types.Pointer, *types.Map, *types.Chan, *types.Interface, *types.Signature:
		return true
	case *types.Basic:
		return u.Kind() == types.UnsafePointer || u.Kind() == types.UntypedNil
	}
	return false
}

func storedInBlocks(a ssa.Value, blocks map[*ssa.BasicBlock]bool) bool {
	if a == nil {
		return true
	}
	refs := a.Referrers()
	if refs == nil {
		return false
	}
	for _, r := range *refs {
		if st, ok := r.(*ssa.Store); ok && st.Addr == a && blocks[st.Block()] {
			return true
		}
		if mc, ok := r.(*ssa.MakeClosure); ok {
			// a closure created from it may assign it when called inside the loop: be conservative
			if fn, ok := mc.Fn.(*ssa.Function); ok {
				for i, b := range mc.Bindings {
					if b == a && !freeVarReadOnly(fn, i, 0) {
						return true
					}
				}
			}
		}
	}
	return false
}

// sliceElem: the term for element i of slice s in heap array version h (element array of
// sort es). In math mode reads go through a view function with a trigger-friendly axiom
// (E-matching on "offset + i" is unreliable for linear arithmetic).
func (v *FV) sliceElemAt(sn *Snapshot, arr string, es string, s Term, i Term) Term {
	ref := fmt.Sprintf("(sl_arr %s)", s)
	switch v.side(v.arrOf(s)) {
	case 1:
		return v.sliceElem(v.heapGet(sn, arr), es, s, i)
	case 2:
		return v.sliceElem(v.heapGet(sn, arr+"$n"), es, s, i)
	}
	return fmt.Sprintf("(ite %s %s %s)", v.isNew(ref), v.sliceElem(v.heapGet(sn, arr+"$n"), es, s, i), v.sliceElem(v.heapGet(sn, arr), es, s, i))
}

// arrOf: the backing-array reference of a slice term when it is syntactically visible
func (v *FV) arrOf(s Term) Term {
	if strings.HasPrefix(s, "(mk_slice ") {
		f := strings.Fields(s)
		if len(f) > 1 {
			return f[1]
		}
	}
	if a, ok := v.sliceArr[s]; ok {
		return a
	}
	return fmt.Sprintf("(sl_arr %s)", s)
}

func (v *FV) sliceElem(h Term, es string, s Term, i Term) Term {
	if v.mode != ModeMath {
		return fmt.Sprintf("(select (select %s (sl_arr %s)) %s)", h, s, v.iadd(fmt.Sprintf("(sl_off %s)", s), i))
	}
	fn := "sl_view_" + mangle(es)
	v.declSlice()
	v.pre("fn "+fn, fmt.Sprintf("(declare-fun %s ((Array Int (Array Int %s)) Slice) (Array Int %s))", fn, es, es))
	v.pre("fnax "+fn, fmt.Sprintf("(assert (forall ((e (Array Int (Array Int %s))) (s Slice) (i Int)) (! (= (select (%s e s) i) (select (select e (sl_arr s)) (+ (sl_off s) i))) :pattern ((select (%s e s) i)))))", es, fn, fn))
	return fmt.Sprintf("(select (%s %s %s) %s)", fn, h, s, i)
}

// preexistFacts: references inside a value that existed before the call are pre-existing objects.
func (v *FV) preexistFacts(t Term, ty types.Type) Term {
	ty = types.Unalias(ty)
	switch u := ty.Underlying().(type) {
	case *types.Slice:
		return fmt.Sprintf("(<= (sl_arr %s) %s)", t, v.n0)
	case *types.Struct:
		var fs []string
		for i := 0; i < u.NumFields(); i++ {
			f := v.preexistFacts(fmt.Sprintf("(%s %s)", v.structSel(ty, i), t), u.Field(i).Type())
			if f != "true" {
				fs = append(fs, f)
			}
		}
		if len(fs) == 0 {
			return "true"
		}
		return "(and " + strings.Join(fs, " ") + ")"
	case *types.Pointer, *types.Map, *types.Interface, *types.Signature, *types.Chan:
		return fmt.Sprintf("(<= %s %s)", t, v.n0)
	}
	return "true"
}
