package main

import (
	"encoding/json"
	"fmt"
	"go/ast"
	"go/types"
	"math/big"
	"os"
	"os/exec"
	"path/filepath"
	"regexp"
	"strings"
	"time"
)

// replayGo turns a solver model into an in-package Go test which is injected with
// `go test -overlay` (nothing is written into the repository), calls the real function
// on the model's inputs and evaluates the failed clause in Go.
//
// Supported: functions whose parameters are integers / bools (receiver: pointer to a
// struct, built with &T{}), obligations of kind post (clause evaluated in Go) and of
// the no-panic kinds (div0, bounds, nil, panic: reproduced iff the real call panics).
func (e *Engine) replayGo(v *FV, o *Obligation) (ran bool, failedOnReal bool, text string) {
	fn := v.top
	if fn == nil || fn.Pkg == nil {
		return false, false, "no function\n"
	}
	vals := parseModel(o.Res.Output)
	if len(vals) == 0 {
		return false, false, "the model could not be parsed\n"
	}
	var b strings.Builder
	pkgName := fn.Pkg.Pkg.Name()
	fmt.Fprintf(&b, "package %s\n\nimport (\n\t\"testing\"\n\t\"time\"\n)\n\nvar _ = time.Now\n\n", pkgName)
	// pure spec functions
	gen := &goGen{v: v, needed: map[string]bool{}, done: map[string]bool{}}
	var decl strings.Builder
	var call []string
	recvExpr := ""
	for i, p := range fn.Params {
		name := "in_" + mangle(p.Name())
		mv, ok := vals[name]
		pt := p.Type()
		if i == 0 && fn.Signature.Recv() != nil {
			if ptr, ok := pt.Underlying().(*types.Pointer); ok {
				if _, isS := ptr.Elem().Underlying().(*types.Struct); isS {
					recvExpr = fmt.Sprintf("(&%s{})", types.TypeString(ptr.Elem(), func(*types.Package) string { return "" }))
					fmt.Fprintf(&decl, "\t%s := %s\n\t_ = %s\n", p.Name(), recvExpr, p.Name())
					continue
				}
			}
			if _, _, isInt := intInfo(pt); !isInt {
				return false, false, fmt.Sprintf("receiver type %v is not replayable\n", pt)
			}
		}
		bits, signed, isInt := intInfo(pt)
		switch {
		case isInt:
			if !ok {
				mv = big.NewInt(0)
			}
			mv = wrapTo(mv, bits, signed)
			fmt.Fprintf(&decl, "\tvar %s %s = %s\n\t_ = %s\n", p.Name(), types.TypeString(pt, func(*types.Package) string { return "" }), mv.String(), p.Name())
		case isBool(pt):
			bv := "false"
			if s, ok := rawModel(o.Res.Output)[name]; ok && s == "true" {
				bv = "true"
			}
			fmt.Fprintf(&decl, "\tvar %s bool = %s\n\t_ = %s\n", p.Name(), bv, p.Name())
		default:
			return false, false, fmt.Sprintf("parameter %s of type %v is not replayable (only integers and bools are)\n", p.Name(), pt)
		}
		if !(i == 0 && fn.Signature.Recv() != nil) {
			call = append(call, p.Name())
		}
	}
	callee := fn.Name()
	if fn.Signature.Recv() != nil {
		callee = fn.Params[0].Name() + "." + fn.Name()
		if recvExpr == "" {
			call = call[0:]
		}
	}
	nres := fn.Signature.Results().Len()
	var resNames []string
	for i := 0; i < nres; i++ {
		resNames = append(resNames, fmt.Sprintf("result%d", i))
	}
	// requires in Go (to tell whether the model is inside the real precondition)
	var reqs []string
	for _, c := range v.con.Requires {
		g, err := gen.expr(c.Text)
		if err != nil {
			return false, false, "precondition not translatable to Go: " + err.Error() + "\n"
		}
		reqs = append(reqs, "("+g+")")
	}
	clauseGo := ""
	if o.Kind == "post" {
		g, err := gen.expr(o.Text)
		if err != nil {
			return false, false, "clause not translatable to Go: " + err.Error() + "\n"
		}
		clauseGo = g
	} else if o.Kind != "div0" && o.Kind != "bounds" && o.Kind != "nil" && o.Kind != "panic" {
		return false, false, fmt.Sprintf("obligations of kind %s are not replayed (model printed above)\n", o.Kind)
	}
	helpers, err := gen.helpers()
	if err != nil {
		return false, false, err.Error() + "\n"
	}
	b.WriteString(helpers)
	b.WriteString("func TestVerifReplay(t *testing.T) {\n")
	b.WriteString(decl.String())
	if len(reqs) > 0 {
		fmt.Fprintf(&b, "\tif !(%s) {\n\t\tt.Log(\"VERIF-REPLAY-PRECONDITION-NOT-MET\")\n\t\treturn\n\t}\n", strings.Join(reqs, " && "))
	}
	b.WriteString("\tpanicked := true\n\tfunc() {\n\t\tdefer func() { if r := recover(); r != nil { t.Logf(\"VERIF-REPLAY-PANIC %v\", r) } }()\n")
	if nres > 0 {
		fmt.Fprintf(&b, "\t\t%s := %s(%s)\n", strings.Join(resNames, ", "), callee, strings.Join(call, ", "))
		if nres >= 1 {
			b.WriteString("\t\tresult := result0\n\t\t_ = result\n")
		}
		for _, r := range resNames {
			fmt.Fprintf(&b, "\t\t_ = %s\n", r)
		}
	} else {
		fmt.Fprintf(&b, "\t\t%s(%s)\n", callee, strings.Join(call, ", "))
	}
	b.WriteString("\t\tpanicked = false\n")
	if clauseGo != "" {
		fmt.Fprintf(&b, "\t\tif !(%s) {\n\t\t\tt.Logf(\"VERIF-REPLAY-CLAUSE-FALSE results=%%v\", []interface{}{%s})\n\t\t} else {\n\t\t\tt.Log(\"VERIF-REPLAY-CLAUSE-TRUE\")\n\t\t}\n", clauseGo, strings.Join(resNames, ", "))
	}
	b.WriteString("\t}()\n\t_ = panicked\n}\n")
	src := b.String()
	out, runErr := e.runOverlayTest(fn.Pkg.Pkg.Path(), src)
	var tb strings.Builder
	tb.WriteString("generated test (injected with go test -overlay, not written to the repository):\n")
	tb.WriteString(src)
	tb.WriteString("\noutput:\n")
	tb.WriteString(truncate(out, 4000))
	if runErr != nil {
		fmt.Fprintf(&tb, "\n(go test: %v)\n", runErr)
	}
	switch {
	case strings.Contains(out, "VERIF-REPLAY-PRECONDITION-NOT-MET"):
		tb.WriteString("\nthe model does not satisfy the precondition when evaluated on the real code (abstraction gap)\n")
		return true, false, tb.String()
	case clauseGo != "" && strings.Contains(out, "VERIF-REPLAY-CLAUSE-FALSE"):
		return true, true, tb.String()
	case clauseGo == "" && strings.Contains(out, "VERIF-REPLAY-PANIC"):
		return true, true, tb.String()
	case clauseGo != "" && strings.Contains(out, "VERIF-REPLAY-PANIC"):
		tb.WriteString("\nthe real call panicked on the model's input\n")
		return true, true, tb.String()
	}
	return true, false, tb.String()
}

func wrapTo(n *big.Int, bits int, signed bool) *big.Int {
	m := new(big.Int).Lsh(big.NewInt(1), uint(bits))
	r := new(big.Int).Mod(n, m)
	if signed && r.Cmp(new(big.Int).Lsh(big.NewInt(1), uint(bits-1))) >= 0 {
		r.Sub(r, m)
	}
	return r
}

var modelEntry = regexp.MustCompile(`\((in_[A-Za-z0-9_]+)\s+((?:\(-\s*\d+\))|(?:-?\d+)|(?:#x[0-9a-fA-F]+)|(?:#b[01]+)|(?:\(_ bv\d+ \d+\))|true|false)\)`)

func rawModel(out string) map[string]string {
	m := map[string]string{}
	for _, g := range modelEntry.FindAllStringSubmatch(out, -1) {
		m[g[1]] = g[2]
	}
	return m
}

func parseModel(out string) map[string]*big.Int {
	m := map[string]*big.Int{}
	for k, s := range rawModel(out) {
		n := new(big.Int)
		switch {
		case strings.HasPrefix(s, "(-"):
			d := strings.TrimSpace(strings.TrimSuffix(strings.TrimPrefix(s, "(-"), ")"))
			n.SetString(d, 10)
			n.Neg(n)
		case strings.HasPrefix(s, "#x"):
			n.SetString(s[2:], 16)
		case strings.HasPrefix(s, "#b"):
			n.SetString(s[2:], 2)
		case strings.HasPrefix(s, "(_ bv"):
			f := strings.Fields(s)
			n.SetString(strings.TrimPrefix(f[1], "bv"), 10)
		case s == "true" || s == "false":
			continue
		default:
			n.SetString(s, 10)
		}
		m[k] = n
	}
	return m
}

// runOverlayTest runs TestVerifReplay in package pkgPath of the repository through an
// overlay: the generated file is added and the package's own _test.go files are blanked
// (several do not compile in this tree because generated mocks are absent).
func (e *Engine) runOverlayTest(pkgPath, src string) (string, error) {
	rel := strings.TrimPrefix(strings.TrimPrefix(pkgPath, modulePath), "/")
	dir := filepath.Join(e.repo, rel)
	tmp, err := os.MkdirTemp("", "govc-replay-")
	if err != nil {
		return "", err
	}
	defer os.RemoveAll(tmp)
	gen := filepath.Join(tmp, "zz_verif_replay_test.go")
	os.WriteFile(gen, []byte(src), 0o644)
	pkgName := ""
	if i := strings.Index(src, "\n"); i > 0 {
		pkgName = strings.TrimPrefix(src[:i], "package ")
	}
	blank := filepath.Join(tmp, "blank_test.go")
	os.WriteFile(blank, []byte("package "+pkgName+"\n"), 0o644)
	blankExt := filepath.Join(tmp, "blank_ext_test.go")
	os.WriteFile(blankExt, []byte("package "+pkgName+"_test\n"), 0o644)
	replace := map[string]string{filepath.Join(dir, "zz_verif_replay_test.go"): gen}
	ents, _ := os.ReadDir(dir)
	for _, en := range ents {
		if strings.HasSuffix(en.Name(), "_test.go") {
			p := filepath.Join(dir, en.Name())
			data, _ := os.ReadFile(p)
			if regexp.MustCompile(`(?m)^package\s+\w+_test\b`).Match(data) {
				replace[p] = blankExt
			} else {
				replace[p] = blank
			}
		}
	}
	ov, _ := json.Marshal(map[string]interface{}{"Replace": replace})
	ovPath := filepath.Join(tmp, "overlay.json")
	os.WriteFile(ovPath, ov, 0o644)
	cmd := exec.Command("go", "test", "-overlay", ovPath, "-vet=off", "-count=1", "-timeout", "60s", "-run", "^TestVerifReplay$", "-v", "./"+rel)
	cmd.Dir = e.repo
	cmd.Env = append(os.Environ(), "GOFLAGS=-mod=mod", "GOPROXY=off", "GOSUMDB=off", "GOTOOLCHAIN=local")
	done := make(chan struct{})
	var out []byte
	var rerr error
	go func() { out, rerr = cmd.CombinedOutput(); close(done) }()
	select {
	case <-done:
	case <-time.After(180 * time.Second):
		if cmd.Process != nil {
			cmd.Process.Kill()
		}
		return "timeout", fmt.Errorf("replay timed out")
	}
	return string(out), rerr
}

// ---------- contract expression -> Go source

type goGen struct {
	v      *FV
	needed map[string]bool
	done   map[string]bool
	order  []string
}

func (g *goGen) expr(text string) (s string, err error) {
	defer func() {
		if r := recover(); r != nil {
			if ee, ok := r.(*exprError); ok {
				err = fmt.Errorf("%s", ee.msg)
				return
			}
			panic(r)
		}
	}()
	e, perr := parseContractExpr(text)
	if perr != nil {
		return "", perr
	}
	return g.walk(e), nil
}

func (g *goGen) walk(e ast.Expr) string {
	switch e := e.(type) {
	case *ast.ParenExpr:
		return "(" + g.walk(e.X) + ")"
	case *ast.BasicLit:
		return e.Value
	case *ast.Ident:
		return e.Name
	case *ast.UnaryExpr:
		return e.Op.String() + g.walk(e.X)
	case *ast.BinaryExpr:
		return "(" + g.walk(e.X) + " " + e.Op.String() + " " + g.walk(e.Y) + ")"
	case *ast.SelectorExpr:
		return g.walk(e.X) + "." + e.Sel.Name
	case *ast.CallExpr:
		name := types.ExprString(e.Fun)
		var args []string
		for _, a := range e.Args {
			args = append(args, g.walk(a))
		}
		switch name {
		case "implies":
			return "(!(" + args[0] + ") || (" + args[1] + "))"
		case "iff":
			return "((" + args[0] + ") == (" + args[1] + "))"
		case "old", "forall", "exists", "all", "any", "ite", "store", "fresh", "typeis", "has":
			fail("%s() is not replayable", name)
		}
		if _, ok := g.v.eng.db.Pure[name]; ok {
			g.needed[name] = true
			return "spec_" + name + "(" + strings.Join(args, ", ") + ")"
		}
		return name + "(" + strings.Join(args, ", ") + ")"
	}
	fail("expression form not replayable")
	return ""
}

// helpers emits Go definitions for the spec functions used. Uninterpreted functions need
// an executable definition in /verif/contracts/external/*.replay.go.txt (func spec_<name>).
func (g *goGen) helpers() (string, error) {
	var b strings.Builder
	ext := ""
	files, _ := filepath.Glob("/verif/contracts/external/*.replay.go.txt")
	for _, f := range files {
		d, _ := os.ReadFile(f)
		ext += string(d) + "\n"
	}
	usedExt := false
	for changed := true; changed; {
		changed = false
		for name := range g.needed {
			if g.done[name] {
				continue
			}
			g.done[name] = true
			changed = true
			p := g.v.eng.db.Pure[name]
			if p.Body == "" {
				if !strings.Contains(ext, "func spec_"+name+"(") {
					return "", fmt.Errorf("uninterpreted spec function %s has no executable definition for replay", name)
				}
				usedExt = true
				continue
			}
			var ps []string
			for _, a := range p.Params {
				ps = append(ps, a.Name+" "+a.Type)
			}
			body, err := g.expr(p.Body)
			if err != nil {
				return "", fmt.Errorf("spec function %s: %v", name, err)
			}
			fmt.Fprintf(&b, "func spec_%s(%s) %s { return %s }\n", name, strings.Join(ps, ", "), p.Ret, body)
		}
	}
	if usedExt || strings.Contains(b.String(), "spec_cal_") {
		b.WriteString(ext)
	}
	return b.String(), nil
}
