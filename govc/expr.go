package main

// Contract expressions: Go expression syntax (go/parser) with the extra forms
//   old(e)  result  result0..n  forall(i, lo, hi, body)  exists(i, lo, hi, body)
//   all(i, body) implies(a, b)  a ==> b (top level of a clause or of parentheses)
//   ite(c, a, b)  store(m, k, v)  len(x) cap(x)  T(x) conversions
//   pure/uf functions declared in the spec files, ghost fields, x.f on pointers.

import (
	"fmt"
	"go/ast"
	"go/constant"
	"go/parser"
	"go/token"
	"go/types"
	"math/big"
	"strconv"
	"strings"
)

type ExprEnv struct {
	freshBase Term // allocation counter at the start of the call whose contract is being applied
	v      *FV
	vars   map[string]TV
	addr   map[string]TV // variables known by address (pointer term); loaded on use
	snap   *Snapshot
	old    *Snapshot
	pkg    *types.Package
	reach  Term
	inOld  bool
	lookup func(name string) (TV, bool) // extra resolver (locals)
	what   string
}

type exprError struct{ msg string }

func (e *exprError) Error() string { return e.msg }

func fail(format string, a ...interface{}) { panic(&exprError{fmt.Sprintf(format, a...)}) }

// rewriteImplies turns "a ==> b" (at depth 0, right associative) into implies(a, b),
// recursively inside parentheses and call arguments.
func rewriteImplies(s string) string {
	// process innermost parentheses first by recursive descent
	var out strings.Builder
	depth := 0
	start := -1
	for i := 0; i < len(s); i++ {
		c := s[i]
		if c == '"' {
			j := i + 1
			for j < len(s) && s[j] != '"' {
				if s[j] == '\\' {
					j++
				}
				j++
			}
			if depth == 0 {
				out.WriteString(s[i:min(j+1, len(s))])
			}
			i = j
			continue
		}
		if c == '(' || c == '[' {
			if depth == 0 {
				start = i
			}
			depth++
			continue
		}
		if c == ')' || c == ']' {
			depth--
			if depth == 0 {
				inner := s[start+1 : i]
				out.WriteByte(s[start])
				out.WriteString(rewriteArgs(inner))
				out.WriteByte(c)
			}
			continue
		}
		if depth == 0 {
			out.WriteByte(c)
		}
	}
	t := out.String()
	// now split t at depth-0 "==>"
	depth = 0
	for i := 0; i+2 < len(t); i++ {
		switch t[i] {
		case '(', '[':
			depth++
		case ')', ']':
			depth--
		case '"':
			j := i + 1
			for j < len(t) && t[j] != '"' {
				if t[j] == '\\' {
					j++
				}
				j++
			}
			i = j
		case '=':
			if depth == 0 && t[i:i+3] == "==>" {
				return "implies(" + strings.TrimSpace(t[:i]) + ", " + rewriteTop(strings.TrimSpace(t[i+3:])) + ")"
			}
		}
	}
	return t
}

// rewriteTop: t has already had its parenthesised parts rewritten
func rewriteTop(t string) string {
	depth := 0
	for i := 0; i+2 < len(t); i++ {
		switch t[i] {
		case '(', '[':
			depth++
		case ')', ']':
			depth--
		case '=':
			if depth == 0 && t[i:i+3] == "==>" {
				return "implies(" + strings.TrimSpace(t[:i]) + ", " + rewriteTop(strings.TrimSpace(t[i+3:])) + ")"
			}
		}
	}
	return t
}

// rewriteArgs: split on depth-0 commas, rewrite each part
func rewriteArgs(s string) string {
	var parts []string
	depth := 0
	last := 0
	for i := 0; i < len(s); i++ {
		switch s[i] {
		case '(', '[', '{':
			depth++
		case ')', ']', '}':
			depth--
		case '"':
			j := i + 1
			for j < len(s) && s[j] != '"' {
				if s[j] == '\\' {
					j++
				}
				j++
			}
			i = j
		case ',':
			if depth == 0 {
				parts = append(parts, s[last:i])
				last = i + 1
			}
		}
	}
	parts = append(parts, s[last:])
	for i := range parts {
		parts[i] = rewriteImplies(parts[i])
	}
	return strings.Join(parts, ",")
}

func parseContractExpr(text string) (ast.Expr, error) {
	return parser.ParseExpr(rewriteImplies(text))
}

// Eval translates a clause to a Bool term. Errors are returned, not panicked.
func (env *ExprEnv) EvalBool(text string) (t Term, err error) {
	defer func() {
		if r := recover(); r != nil {
			if ee, ok := r.(*exprError); ok {
				err = fmt.Errorf("%s: %s", text, ee.msg)
				return
			}
			panic(r)
		}
	}()
	e, perr := parseContractExpr(text)
	if perr != nil {
		return "", fmt.Errorf("parse %q: %v", text, perr)
	}
	tv := env.eval(e)
	if tv.Sort != "Bool" {
		return "", fmt.Errorf("clause %q is not boolean (sort %s)", text, tv.Sort)
	}
	return tv.T, nil
}

func (env *ExprEnv) EvalAny(text string) (tv TV, err error) {
	defer func() {
		if r := recover(); r != nil {
			if ee, ok := r.(*exprError); ok {
				err = fmt.Errorf("%s: %s", text, ee.msg)
				return
			}
			panic(r)
		}
	}()
	e, perr := parseContractExpr(text)
	if perr != nil {
		return TV{}, fmt.Errorf("parse %q: %v", text, perr)
	}
	return env.eval(e), nil
}

func (env *ExprEnv) typed(t Term, ty types.Type) TV {
	return TV{T: t, Ty: ty, Sort: env.v.sortOf(ty)}
}

func (env *ExprEnv) resolveType(e ast.Expr) types.Type {
	s := types.ExprString(e)
	return env.v.parseType(s, env.pkg)
}

func (v *FV) parseType(s string, pkg *types.Package) types.Type {
	s = strings.TrimSpace(s)
	switch s {
	case "int":
		return types.Typ[types.Int]
	case "int64":
		return types.Typ[types.Int64]
	case "int32":
		return types.Typ[types.Int32]
	case "int16":
		return types.Typ[types.Int16]
	case "int8":
		return types.Typ[types.Int8]
	case "uint":
		return types.Typ[types.Uint]
	case "uint64":
		return types.Typ[types.Uint64]
	case "uint32":
		return types.Typ[types.Uint32]
	case "uint16":
		return types.Typ[types.Uint16]
	case "uint8", "byte":
		return types.Typ[types.Uint8]
	case "bool":
		return types.Typ[types.Bool]
	case "string":
		return types.Typ[types.String]
	case "float64":
		return types.Typ[types.Float64]
	case "ref":
		return types.Typ[types.UnsafePointer]
	}
	if strings.HasPrefix(s, "map[") {
		// ghost pure map
		depth := 0
		for i := 3; i < len(s); i++ {
			if s[i] == '[' {
				depth++
			} else if s[i] == ']' {
				depth--
				if depth == 0 {
					k := v.parseType(s[4:i], pkg)
					e := v.parseType(s[i+1:], pkg)
					if k == nil || e == nil {
						return nil
					}
					return types.NewMap(k, e)
				}
			}
		}
	}
	if strings.HasPrefix(s, "[]") {
		e := v.parseType(s[2:], pkg)
		if e == nil {
			return nil
		}
		return types.NewSlice(e)
	}
	if strings.HasPrefix(s, "*") {
		e := v.parseType(s[1:], pkg)
		if e == nil {
			return nil
		}
		return types.NewPointer(e)
	}
	if pkg != nil {
		if i := strings.LastIndex(s, "."); i >= 0 {
			pn, tn := s[:i], s[i+1:]
			for _, imp := range pkg.Imports() {
				if imp.Name() == pn || imp.Path() == pn {
					if o := imp.Scope().Lookup(tn); o != nil {
						if tno, ok := o.(*types.TypeName); ok {
							return tno.Type()
						}
					}
				}
			}
			// search the whole program for a package with that name/path
			for _, p := range v.eng.prog.AllPackages() {
				if p.Pkg.Path() == pn || p.Pkg.Name() == pn {
					if o := p.Pkg.Scope().Lookup(tn); o != nil {
						if tno, ok := o.(*types.TypeName); ok {
							return tno.Type()
						}
					}
				}
			}
		} else if o := pkg.Scope().Lookup(s); o != nil {
			if tno, ok := o.(*types.TypeName); ok {
				return tno.Type()
			}
		}
	}
	return nil
}

// ghostSort: SMT sort of a ghost-typed value; Go map types are pure arrays.
func (v *FV) ghostSort(t types.Type) string {
	if m, ok := t.(*types.Map); ok {
		return fmt.Sprintf("(Array %s %s)", v.ghostSort(m.Key()), v.ghostSort(m.Elem()))
	}
	return v.sortOf(t)
}

func (env *ExprEnv) lookupConst(pkg *types.Package, name string) (TV, bool) {
	if pkg == nil {
		return TV{}, false
	}
	o := pkg.Scope().Lookup(name)
	if o == nil {
		return TV{}, false
	}
	if c, ok := o.(*types.Const); ok {
		return env.constTV(c.Val(), c.Type()), true
	}
	return TV{}, false
}

func (env *ExprEnv) constTV(val constant.Value, ty types.Type) TV {
	v := env.v
	if b, ok := ty.Underlying().(*types.Basic); ok && b.Info()&types.IsUntyped != 0 {
		return TV{CV: val}
	}
	switch val.Kind() {
	case constant.Bool:
		if constant.BoolVal(val) {
			return TV{T: "true", Ty: ty, Sort: "Bool"}
		}
		return TV{T: "false", Ty: ty, Sort: "Bool"}
	case constant.Int:
		if bits, _, ok := intInfo(ty); ok {
			n, _ := new(big.Int).SetString(val.ExactString(), 10)
			return TV{T: v.intLit(n, bits), Ty: ty, Sort: v.sortOf(ty)}
		}
		if isFloat(ty) {
			return TV{T: v.floatConst(val.ExactString()), Ty: ty, Sort: "F64"}
		}
	case constant.String:
		return TV{T: v.strLit(constant.StringVal(val)), Ty: ty, Sort: "Str"}
	case constant.Float:
		return TV{T: v.floatConst(val.ExactString()), Ty: ty, Sort: "F64"}
	}
	fail("unsupported constant %v of type %v", val, ty)
	return TV{}
}

// coerce an untyped constant to the type of another operand
func (env *ExprEnv) coerce(tv TV, ty types.Type, sort string) TV {
	if tv.CV == nil || tv.Ty != nil {
		return tv
	}
	v := env.v
	if ty == nil {
		// default type
		switch tv.CV.Kind() {
		case constant.Int:
			ty = types.Typ[types.Int]
		case constant.Bool:
			ty = types.Typ[types.Bool]
		case constant.String:
			ty = types.Typ[types.String]
		case constant.Float:
			ty = types.Typ[types.Float64]
		}
		sort = v.sortOf(ty)
	}
	switch tv.CV.Kind() {
	case constant.Int:
		n, _ := new(big.Int).SetString(tv.CV.ExactString(), 10)
		if bits, _, ok := intInfo(ty); ok {
			return TV{T: v.intLit(n, bits), Ty: ty, Sort: sort}
		}
		if isFloat(ty) {
			return TV{T: v.floatConst(tv.CV.ExactString()), Ty: ty, Sort: "F64"}
		}
		if sort == "Int" {
			// reference-like (nil = 0) or math int
			if n.Sign() < 0 {
				return TV{T: fmt.Sprintf("(- %s)", new(big.Int).Neg(n)), Ty: ty, Sort: sort}
			}
			return TV{T: n.String(), Ty: ty, Sort: sort}
		}
		if strings.HasPrefix(sort, "(_ BitVec ") {
			var bits int
			fmt.Sscanf(sort, "(_ BitVec %d)", &bits)
			return TV{T: v.intLit(n, bits), Ty: ty, Sort: sort}
		}
	case constant.Bool:
		if constant.BoolVal(tv.CV) {
			return TV{T: "true", Ty: ty, Sort: "Bool"}
		}
		return TV{T: "false", Ty: ty, Sort: "Bool"}
	case constant.String:
		return TV{T: v.strLit(constant.StringVal(tv.CV)), Ty: ty, Sort: "Str"}
	case constant.Float:
		return TV{T: v.floatConst(tv.CV.ExactString()), Ty: ty, Sort: "F64"}
	}
	fail("cannot coerce constant %v to %v", tv.CV, ty)
	return TV{}
}

func (env *ExprEnv) eval(e ast.Expr) TV {
	v := env.v
	switch e := e.(type) {
	case *ast.ParenExpr:
		return env.eval(e.X)
	case *ast.BasicLit:
		switch e.Kind {
		case token.INT:
			return TV{CV: constant.MakeFromLiteral(e.Value, token.INT, 0)}
		case token.FLOAT:
			return TV{CV: constant.MakeFromLiteral(e.Value, token.FLOAT, 0)}
		case token.STRING:
			s, _ := strconv.Unquote(e.Value)
			return TV{T: v.strLit(s), Ty: types.Typ[types.String], Sort: "Str"}
		case token.CHAR:
			return TV{CV: constant.MakeFromLiteral(e.Value, token.CHAR, 0)}
		}
	case *ast.Ident:
		return env.ident(e.Name)
	case *ast.UnaryExpr:
		x := env.eval(e.X)
		switch e.Op {
		case token.NOT:
			x = env.coerce(x, nil, "")
			return TV{T: fmt.Sprintf("(not %s)", x.T), Ty: x.Ty, Sort: "Bool"}
		case token.SUB:
			if x.Ty == nil && x.CV != nil {
				return TV{CV: constant.UnaryOp(token.SUB, x.CV, 0)}
			}
			return TV{T: v.arith("neg", x, x), Ty: x.Ty, Sort: x.Sort}
		case token.XOR:
			if v.mode == ModeMath {
				fail("^x in math mode")
			}
			return TV{T: fmt.Sprintf("(bvnot %s)", x.T), Ty: x.Ty, Sort: x.Sort}
		case token.ADD:
			return x
		case token.AND:
			// a struct-valued field of an object is denoted by the reference of the sub-object
			if pt, ok := x.Ty.(*types.Pointer); ok {
				if _, isS := pt.Elem().Underlying().(*types.Struct); isS {
					return x
				}
			}
			fail("& is supported on struct-valued fields only")
		}
	case *ast.StarExpr:
		x := env.eval(e.X)
		pt, ok := x.Ty.Underlying().(*types.Pointer)
		if !ok {
			fail("* of non-pointer")
		}
		return env.deref(x.T, pt.Elem())
	case *ast.BinaryExpr:
		return env.binary(e)
	case *ast.SelectorExpr:
		return env.selector(e)
	case *ast.IndexExpr:
		x := env.eval(e.X)
		i := env.eval(e.Index)
		return env.index(x, i)
	case *ast.CallExpr:
		return env.call(e)
	case *ast.SliceExpr:
		x := env.eval(e.X)
		if x.Sort != "Slice" {
			fail("slice expression on non-slice")
		}
		lo := TV{CV: constant.MakeInt64(0)}
		if e.Low != nil {
			lo = env.eval(e.Low)
		}
		lo = env.coerce(lo, types.Typ[types.Int], v.idx())
		var hi TV
		if e.High != nil {
			hi = env.coerce(env.eval(e.High), types.Typ[types.Int], v.idx())
		} else {
			hi = TV{T: fmt.Sprintf("(sl_len %s)", x.T), Ty: types.Typ[types.Int], Sort: v.idx()}
		}
		t := fmt.Sprintf("(mk_slice (sl_arr %s) %s %s %s)", x.T, v.iadd(fmt.Sprintf("(sl_off %s)", x.T), lo.T), v.isub(hi.T, lo.T), v.isub(fmt.Sprintf("(sl_cap %s)", x.T), lo.T))
		return TV{T: t, Ty: x.Ty, Sort: "Slice"}
	}
	fail("unsupported expression %s", types.ExprString(e))
	return TV{}
}

func (v *FV) iadd(a, b Term) Term {
	if v.mode == ModeMath {
		return fmt.Sprintf("(+ %s %s)", a, b)
	}
	return fmt.Sprintf("(bvadd %s %s)", a, b)
}
func (v *FV) isub(a, b Term) Term {
	if v.mode == ModeMath {
		return fmt.Sprintf("(- %s %s)", a, b)
	}
	return fmt.Sprintf("(bvsub %s %s)", a, b)
}

func (env *ExprEnv) ident(name string) TV {
	switch name {
	case "true":
		return TV{T: "true", Ty: types.Typ[types.Bool], Sort: "Bool"}
	case "false":
		return TV{T: "false", Ty: types.Typ[types.Bool], Sort: "Bool"}
	case "nil":
		return TV{T: "0", Ty: types.Typ[types.UntypedNil], Sort: "Int"}
	}
	if tv, ok := env.vars[name]; ok {
		return tv
	}
	if a, ok := env.addr[name]; ok {
		pt := a.Ty.Underlying().(*types.Pointer)
		return env.deref(a.T, pt.Elem())
	}
	if env.lookup != nil {
		if tv, ok := env.lookup(name); ok {
			return tv
		}
	}
	if tv, ok := env.lookupConst(env.pkg, name); ok {
		return tv
	}
	// package-level variable
	if env.pkg != nil {
		if o := env.pkg.Scope().Lookup(name); o != nil {
			if gv, ok := o.(*types.Var); ok {
				ref := env.v.globalRef(gv)
				return env.deref(ref, gv.Type())
			}
		}
	}
	// math constants
	switch name {
	case "MaxInt64":
		return TV{CV: constant.MakeInt64(1<<63 - 1)}
	case "MinInt64":
		return TV{CV: constant.MakeInt64(-1 << 63)}
	case "MaxUint32":
		return TV{CV: constant.MakeInt64(1<<32 - 1)}
	case "MaxUint16":
		return TV{CV: constant.MakeInt64(1<<16 - 1)}
	case "MaxInt32":
		return TV{CV: constant.MakeInt64(1<<31 - 1)}
	}
	fail("unknown identifier %q in %s", name, env.what)
	return TV{}
}

func (v *FV) globalRef(gv *types.Var) Term {
	name := "glob_" + mangle(shortPkg(gv.Pkg().Path())+"_"+gv.Name())
	v.pre("glob "+name, fmt.Sprintf("(declare-const %s Int)", name))
	v.pre("globpos "+name, fmt.Sprintf("(assert (and (> %s 0) (<= %s N0!)))", name, name))
	return name
}

func (env *ExprEnv) heapNow() *Snapshot {
	if env.inOld && env.old != nil {
		return env.old
	}
	return env.snap
}

func (env *ExprEnv) deref(ref Term, elem types.Type) TV {
	v := env.v
	if env.heapNow() == nil {
		fail("heap access in a pure context")
	}
	if l, ok := v.ptrLocs[ref]; ok {
		// a pointer into a slice / array element (or a field of such a value)
		return env.typed(v.load(&State{snap: env.heapNow()}, l), elem)
	}
	if _, ok := elem.Underlying().(*types.Struct); ok {
		return env.typed(v.loadStruct(env.heapNow(), elem, ref), elem)
	}
	arr := v.cellArray(elem)
	return env.typed(v.rd(env.heapNow(), arr, ref), elem)
}

func (env *ExprEnv) selector(e *ast.SelectorExpr) TV {
	v := env.v
	// package-qualified constant / variable?
	if id, ok := e.X.(*ast.Ident); ok {
		if _, isVar := env.vars[id.Name]; !isVar {
			if _, isAddr := env.addr[id.Name]; !isAddr {
				known := false
				if env.lookup != nil {
					_, known = env.lookup(id.Name)
				}
				if !known {
					if p := env.findPkg(id.Name); p != nil {
						if tv, ok := env.lookupConst(p, e.Sel.Name); ok {
							return tv
						}
						if o := p.Scope().Lookup(e.Sel.Name); o != nil {
							if gv, ok := o.(*types.Var); ok {
								return env.deref(v.globalRef(gv), gv.Type())
							}
						}
						fail("unknown %s.%s", id.Name, e.Sel.Name)
					}
				}
			}
		}
	}
	x := env.eval(e.X)
	return env.fieldOf(x, e.Sel.Name)
}

func (env *ExprEnv) findPkg(name string) *types.Package {
	if env.pkg != nil {
		for _, imp := range env.pkg.Imports() {
			if imp.Name() == name {
				return imp
			}
		}
	}
	for _, p := range env.v.eng.prog.AllPackages() {
		if p.Pkg.Name() == name && strings.Contains(p.Pkg.Path(), "lindb") {
			return p.Pkg
		}
	}
	for _, p := range env.v.eng.prog.AllPackages() {
		if p.Pkg.Name() == name {
			return p.Pkg
		}
	}
	return nil
}

func (env *ExprEnv) fieldOf(x TV, name string) TV {
	v := env.v
	if x.Ty != nil {
		name = v.aliasName(x.Ty, name)
	}
	if x.Ty == nil {
		fail("field %s of untyped value", name)
	}
	ty := types.Unalias(x.Ty)
	// ghost field?
	if g := v.findGhost(ty, name); g != nil {
		gty := v.parseType(g.Type, env.pkg)
		if gty == nil {
			gty = v.parseType(g.Type, v.pkgOf(g.Pkg))
		}
		if gty == nil {
			fail("cannot resolve ghost field type %q", g.Type)
		}
		arr := "G_" + mangle(shortPkg(g.Owner)+"_"+g.Name)
		gs := v.ghostSort(gty)
		v.regArray(arr, fmt.Sprintf("(Array Int %s)", gs))
		if v.eng.db.Stable[g.Owner+"."+g.Name] {
			// a ghost field declared stable: no code writes it, it keeps its value across calls (only ghost assignments change it)
			v.stableArrays[arr] = true
		}
		if env.heapNow() == nil {
			fail("heap access in pure context")
		}
		return TV{T: v.rd(env.heapNow(), arr, x.T), Ty: gty, Sort: gs}
	}
	isPtr := false
	st := ty
	if p, ok := ty.Underlying().(*types.Pointer); ok {
		isPtr = true
		st = p.Elem()
	}
	su, ok := st.Underlying().(*types.Struct)
	if !ok {
		fail("field %s of non-struct %v", name, ty)
	}
	// find field (including promoted through embedded structs, one level)
	for i := 0; i < su.NumFields(); i++ {
		f := su.Field(i)
		if f.Name() == name {
			if isPtr {
				if env.heapNow() == nil {
					fail("heap access in pure context")
				}
				if _, isS := f.Type().Underlying().(*types.Struct); isS {
					// struct-typed field reached through a pointer: its address (so that
					// x.f.g and ghost fields of f resolve through the heap); use *x.f for the value
					return TV{T: v.subRef(st, i, x.T), Ty: types.NewPointer(f.Type()), Sort: "Int"}
				}
				return env.typed(v.loadField(env.heapNow(), st, i, x.T), f.Type())
			}
			return env.typed(fmt.Sprintf("(%s %s)", v.structSel(st, i), x.T), f.Type())
		}
	}
	for i := 0; i < su.NumFields(); i++ {
		f := su.Field(i)
		if f.Embedded() {
			var inner TV
			if isPtr {
				if _, isS := f.Type().Underlying().(*types.Struct); isS {
					inner = TV{T: v.subRef(st, i, x.T), Ty: types.NewPointer(f.Type()), Sort: "Int"}
				} else {
					inner = env.typed(v.loadField(env.heapNow(), st, i, x.T), f.Type())
				}
			} else {
				inner = env.typed(fmt.Sprintf("(%s %s)", v.structSel(st, i), x.T), f.Type())
			}
			if r, ok := env.tryField(inner, name); ok {
				return r
			}
		}
	}
	fail("no field %s in %v", name, st)
	return TV{}
}

func (env *ExprEnv) tryEval(e ast.Expr) (tv TV, ok bool) {
	defer func() {
		if r := recover(); r != nil {
			if _, isE := r.(*exprError); isE {
				ok = false
				return
			}
			panic(r)
		}
	}()
	return env.eval(e), true
}

func (env *ExprEnv) tryField(x TV, name string) (tv TV, ok bool) {
	defer func() {
		if r := recover(); r != nil {
			if _, isE := r.(*exprError); isE {
				ok = false
				return
			}
			panic(r)
		}
	}()
	return env.fieldOf(x, name), true
}

// addrField: address (ref) of an embedded struct field, for x.f.g chains where f is a struct
// aliasName: the ghost value view ".val" of go.uber.org/atomic integer types is their real field
// "v", so that copies of such values (map elements, struct copies) carry it along.
func (v *FV) aliasName(ty types.Type, name string) string {
	if name != "val" {
		return name
	}
	t := types.Unalias(ty)
	if p, ok := t.Underlying().(*types.Pointer); ok {
		t = p.Elem()
	}
	if !strings.HasPrefix(typeKey(t), "go.uber.org/atomic.") {
		return name
	}
	su, ok := t.Underlying().(*types.Struct)
	if !ok {
		return name
	}
	for i := 0; i < su.NumFields(); i++ {
		if su.Field(i).Name() == "v" {
			if _, _, isInt := intInfo(su.Field(i).Type()); isInt {
				return "v"
			}
		}
	}
	return name
}

func (v *FV) findGhost(ty types.Type, name string) *GhostField {
	key := typeKey(ty)
	for _, g := range v.eng.db.Ghosts[key] {
		if g.Name == name {
			return g
		}
	}
	// ghost fields of interfaces implemented by ty
	for owner, gs := range v.eng.db.Ghosts {
		for _, g := range gs {
			if g.Name != name {
				continue
			}
			ot := v.lookupNamed(owner)
			if ot == nil {
				continue
			}
			if it, ok := ot.Underlying().(*types.Interface); ok {
				if types.Implements(ty, it) || types.Implements(types.NewPointer(ty), it) {
					return g
				}
			}
		}
	}
	return nil
}

func (v *FV) pkgOf(path string) *types.Package {
	for _, p := range v.eng.prog.AllPackages() {
		if p.Pkg.Path() == path {
			return p.Pkg
		}
	}
	return nil
}

func (v *FV) lookupNamed(key string) types.Type {
	i := strings.LastIndex(key, ".")
	if i < 0 {
		return nil
	}
	p := v.pkgOf(key[:i])
	if p == nil {
		return nil
	}
	o := p.Scope().Lookup(key[i+1:])
	if o == nil {
		return nil
	}
	return o.Type()
}

func (env *ExprEnv) index(x, i TV) TV {
	v := env.v
	if strings.HasPrefix(x.Sort, "(Array ") {
		// pure array (ghost map or Go array value)
		var kt, et types.Type
		ksort := v.idx()
		switch u := x.Ty.(type) {
		case *types.Map:
			kt, et = u.Key(), u.Elem()
			ksort = v.ghostSort(kt)
		default:
			if a, ok := x.Ty.Underlying().(*types.Array); ok {
				kt, et = types.Typ[types.Int], a.Elem()
			} else {
				fail("index of array-sorted value with type %v", x.Ty)
			}
		}
		i = env.coerce(i, kt, ksort)
		es := v.ghostSort(et)
		return TV{T: fmt.Sprintf("(select %s %s)", x.T, i.T), Ty: et, Sort: es}
	}
	if x.Sort == "Slice" {
		sl := x.Ty.Underlying().(*types.Slice)
		i = env.coerce(i, types.Typ[types.Int], v.idx())
		arr := v.elemArray(sl.Elem())
		if env.heapNow() == nil {
			fail("heap access in pure context")
		}
		return env.typed(v.sliceElemAt(env.heapNow(), arr, v.sortOf(sl.Elem()), x.T, i.T), sl.Elem())
	}
	if x.Sort == "Str" {
		i = env.coerce(i, types.Typ[types.Int], v.idx())
		v.pre("str_at", fmt.Sprintf("(declare-fun str_at (Str %s) %s)", v.idx(), v.sortOf(types.Typ[types.Uint8])))
		return env.typed(fmt.Sprintf("(str_at %s %s)", x.T, i.T), types.Typ[types.Uint8])
	}
	if m, ok := x.Ty.Underlying().(*types.Map); ok {
		i = env.coerce(i, m.Key(), v.sortOf(m.Key()))
		_, val := v.mapArrays(m)
		return env.typed(fmt.Sprintf("(select %s %s)", v.rd(env.heapNow(), val, x.T), i.T), m.Elem())
	}
	fail("cannot index value of sort %s", x.Sort)
	return TV{}
}

func (v *FV) mapArrays(m *types.Map) (dom, val string) {
	ks, vs := v.sortOf(m.Key()), v.sortOf(m.Elem())
	dom = "MD_" + mangle(ks) + "_" + mangle(vs)
	val = "MV_" + mangle(ks) + "_" + mangle(vs)
	v.regArray(dom, fmt.Sprintf("(Array Int (Array %s Bool))", ks))
	v.regArray(val, fmt.Sprintf("(Array Int (Array %s %s))", ks, vs))
	if v.isRefLike(m.Elem()) {
		v.refArrays[val] = true
	}
	return
}

func (v *FV) mapLenArray() string {
	v.regArray("MLEN", fmt.Sprintf("(Array Int %s)", v.idx()))
	return "MLEN"
}

func (env *ExprEnv) binary(e *ast.BinaryExpr) TV {
	v := env.v
	switch e.Op {
	case token.LAND, token.LOR:
		x := env.coerce(env.eval(e.X), nil, "")
		y := env.coerce(env.eval(e.Y), nil, "")
		if x.Sort != "Bool" || y.Sort != "Bool" {
			fail("&&/|| on non-bool in %s", types.ExprString(e))
		}
		op := "and"
		if e.Op == token.LOR {
			op = "or"
		}
		return TV{T: fmt.Sprintf("(%s %s %s)", op, x.T, y.T), Ty: types.Typ[types.Bool], Sort: "Bool"}
	}
	x := env.eval(e.X)
	y := env.eval(e.Y)
	if x.Ty == nil && y.Ty == nil && x.CV != nil && y.CV != nil {
		// constant folding
		switch e.Op {
		case token.EQL, token.NEQ, token.LSS, token.LEQ, token.GTR, token.GEQ:
			b := constant.Compare(x.CV, e.Op, y.CV)
			if b {
				return TV{T: "true", Ty: types.Typ[types.Bool], Sort: "Bool"}
			}
			return TV{T: "false", Ty: types.Typ[types.Bool], Sort: "Bool"}
		case token.SHL, token.SHR:
			n, _ := constant.Uint64Val(y.CV)
			return TV{CV: constant.Shift(x.CV, e.Op, uint(n))}
		case token.QUO:
			if x.CV.Kind() == constant.Int && y.CV.Kind() == constant.Int {
				return TV{CV: constant.BinaryOp(x.CV, token.QUO_ASSIGN, y.CV)}
			}
		}
		return TV{CV: constant.BinaryOp(x.CV, e.Op, y.CV)}
	}
	if e.Op == token.SHL || e.Op == token.SHR {
		x = env.coerce(x, types.Typ[types.Int], v.idx())
		ycv := y.CV
		y = env.coerce(y, types.Typ[types.Uint], v.sortOf(types.Typ[types.Uint]))
		y.CV = ycv
		return TV{T: v.shift(e.Op, x, y), Ty: x.Ty, Sort: x.Sort}
	}
	// nil compared with a slice: the nil slice
	if x.Ty == types.Typ[types.UntypedNil] && y.Sort == "Slice" {
		x = TV{T: v.zero(y.Ty), Ty: y.Ty, Sort: "Slice"}
	}
	if y.Ty == types.Typ[types.UntypedNil] && x.Sort == "Slice" {
		y = TV{T: v.zero(x.Ty), Ty: x.Ty, Sort: "Slice"}
	}
	if x.Ty == nil || (x.Ty == types.Typ[types.UntypedNil] && y.Ty != nil) {
		x = env.coerce(x, y.Ty, y.Sort)
		if x.Ty == types.Typ[types.UntypedNil] {
			x.Ty = y.Ty
		}
	}
	if y.Ty == nil || (y.Ty == types.Typ[types.UntypedNil] && x.Ty != nil) {
		y = env.coerce(y, x.Ty, x.Sort)
		if y.Ty == types.Typ[types.UntypedNil] {
			y.Ty = x.Ty
		}
	}
	if x.Sort != y.Sort {
		fail("operands of %s have different sorts %s / %s in %s", e.Op, x.Sort, y.Sort, types.ExprString(e))
	}
	switch e.Op {
	case token.EQL:
		return TV{T: fmt.Sprintf("(= %s %s)", x.T, y.T), Ty: types.Typ[types.Bool], Sort: "Bool"}
	case token.NEQ:
		return TV{T: fmt.Sprintf("(not (= %s %s))", x.T, y.T), Ty: types.Typ[types.Bool], Sort: "Bool"}
	case token.LSS, token.LEQ, token.GTR, token.GEQ:
		return TV{T: v.compare(e.Op, x, y), Ty: types.Typ[types.Bool], Sort: "Bool"}
	case token.ADD:
		if x.Sort == "Str" {
			return TV{T: fmt.Sprintf("(str_cat %s %s)", x.T, y.T), Ty: x.Ty, Sort: "Str"}
		}
		return TV{T: v.arith("+", x, y), Ty: x.Ty, Sort: x.Sort}
	case token.SUB:
		return TV{T: v.arith("-", x, y), Ty: x.Ty, Sort: x.Sort}
	case token.MUL:
		return TV{T: v.arith("*", x, y), Ty: x.Ty, Sort: x.Sort}
	case token.QUO:
		return TV{T: v.arith("/", x, y), Ty: x.Ty, Sort: x.Sort}
	case token.REM:
		return TV{T: v.arith("%", x, y), Ty: x.Ty, Sort: x.Sort}
	case token.AND:
		return TV{T: v.arith("&", x, y), Ty: x.Ty, Sort: x.Sort}
	case token.OR:
		return TV{T: v.arith("|", x, y), Ty: x.Ty, Sort: x.Sort}
	case token.XOR:
		return TV{T: v.arith("^", x, y), Ty: x.Ty, Sort: x.Sort}
	case token.AND_NOT:
		return TV{T: v.arith("&^", x, y), Ty: x.Ty, Sort: x.Sort}
	}
	fail("unsupported operator %s", e.Op)
	return TV{}
}

func (v *FV) compare(op token.Token, x, y TV) Term {
	if isFloat(x.Ty) {
		v.pre("f64_lt", "(declare-fun f64_lt (F64 F64) Bool)")
		v.pre("f64_le", "(declare-fun f64_le (F64 F64) Bool)")
		switch op {
		case token.LSS:
			return fmt.Sprintf("(f64_lt %s %s)", x.T, y.T)
		case token.LEQ:
			return fmt.Sprintf("(f64_le %s %s)", x.T, y.T)
		case token.GTR:
			return fmt.Sprintf("(f64_lt %s %s)", y.T, x.T)
		case token.GEQ:
			return fmt.Sprintf("(f64_le %s %s)", y.T, x.T)
		}
	}
	if x.Sort == "Str" {
		v.pre("str_lt", "(declare-fun str_lt (Str Str) Bool)")
		switch op {
		case token.LSS:
			return fmt.Sprintf("(str_lt %s %s)", x.T, y.T)
		case token.GTR:
			return fmt.Sprintf("(str_lt %s %s)", y.T, x.T)
		case token.LEQ:
			return fmt.Sprintf("(not (str_lt %s %s))", y.T, x.T)
		case token.GEQ:
			return fmt.Sprintf("(not (str_lt %s %s))", x.T, y.T)
		}
	}
	signed := true
	if x.Ty != nil {
		if _, s, ok := intInfo(x.Ty); ok {
			signed = s
		}
	}
	o := map[token.Token]string{token.LSS: "<", token.LEQ: "<=", token.GTR: ">", token.GEQ: ">="}[op]
	return fmt.Sprintf("(%s %s %s)", v.cmpOp(o, signed), x.T, y.T)
}

// arith builds the term for an arithmetic operator on same-typed operands. In math
// mode division and remainder are Go's truncated forms.
func (v *FV) arith(op string, x, y TV) Term {
	if x.Ty != nil && isFloat(x.Ty) {
		name := map[string]string{"+": "f64_add", "-": "f64_sub", "*": "f64_mul", "/": "f64_div", "neg": "f64_neg"}[op]
		if name == "" {
			fail("float operator %s", op)
		}
		if op == "neg" {
			v.pre(name, "(declare-fun f64_neg (F64) F64)")
			return fmt.Sprintf("(f64_neg %s)", x.T)
		}
		v.pre(name, fmt.Sprintf("(declare-fun %s (F64 F64) F64)", name))
		return fmt.Sprintf("(%s %s %s)", name, x.T, y.T)
	}
	signed := true
	if x.Ty != nil {
		if _, s, ok := intInfo(x.Ty); ok {
			signed = s
		}
	}
	if v.mode == ModeMath {
		switch op {
		case "+", "-", "*":
			return fmt.Sprintf("(%s %s %s)", op, x.T, y.T)
		case "neg":
			return fmt.Sprintf("(- %s)", x.T)
		case "/":
			return v.mathDiv(x.T, y.T)
		case "%":
			return fmt.Sprintf("(- %s (* %s %s))", x.T, y.T, v.mathDiv(x.T, y.T))
		}
		fail("bit operator %s in math mode", op)
	}
	switch op {
	case "+":
		return fmt.Sprintf("(bvadd %s %s)", x.T, y.T)
	case "-":
		return fmt.Sprintf("(bvsub %s %s)", x.T, y.T)
	case "*":
		return fmt.Sprintf("(bvmul %s %s)", x.T, y.T)
	case "neg":
		return fmt.Sprintf("(bvneg %s)", x.T)
	case "/":
		if signed {
			return fmt.Sprintf("(bvsdiv %s %s)", x.T, y.T)
		}
		return fmt.Sprintf("(bvudiv %s %s)", x.T, y.T)
	case "%":
		if signed {
			return fmt.Sprintf("(bvsrem %s %s)", x.T, y.T)
		}
		return fmt.Sprintf("(bvurem %s %s)", x.T, y.T)
	case "&":
		return fmt.Sprintf("(bvand %s %s)", x.T, y.T)
	case "|":
		return fmt.Sprintf("(bvor %s %s)", x.T, y.T)
	case "^":
		return fmt.Sprintf("(bvxor %s %s)", x.T, y.T)
	case "&^":
		return fmt.Sprintf("(bvand %s (bvnot %s))", x.T, y.T)
	}
	fail("operator %s", op)
	return ""
}

// mathDiv: Go's truncated division over mathematical integers (SMT div is floored /
// Euclidean).
func (v *FV) mathDiv(a, b Term) Term {
	v.pre("tdiv", "(define-fun tdiv ((a Int) (b Int)) Int (ite (>= a 0) (ite (> b 0) (div a b) (- (div a (- b)))) (ite (> b 0) (- (div (- a) b)) (div (- a) (- b)))))")
	return fmt.Sprintf("(tdiv %s %s)", a, b)
}

func (v *FV) shift(op token.Token, x, y TV) Term {
	if v.mode == ModeMath {
		// shifts by constants are multiplication / floor division
		if y.CV != nil {
			if n, ok := constant.Uint64Val(constant.ToInt(y.CV)); ok && n < 200 {
				p := new(big.Int).Lsh(big.NewInt(1), uint(n)).String()
				if op == token.SHL {
					return fmt.Sprintf("(* %s %s)", x.T, p)
				}
				return fmt.Sprintf("(div %s %s)", x.T, p)
			}
		}
		fail("variable shift in math mode")
	}
	xb, xs, _ := intInfo(x.Ty)
	yb, _, _ := intInfo(y.Ty)
	cnt := y.T
	// bring count to width of x, saturating
	if yb > xb {
		lim := v.intLit(big.NewInt(int64(xb)), yb)
		cnt = fmt.Sprintf("(ite (bvuge %s %s) %s ((_ extract %d 0) %s))", y.T, lim, v.intLit(big.NewInt(int64(xb)), xb), xb-1, y.T)
	} else if yb < xb {
		cnt = fmt.Sprintf("((_ zero_extend %d) %s)", xb-yb, y.T)
	}
	if op == token.SHL {
		return fmt.Sprintf("(bvshl %s %s)", x.T, cnt)
	}
	if xs {
		return fmt.Sprintf("(bvashr %s %s)", x.T, cnt)
	}
	return fmt.Sprintf("(bvlshr %s %s)", x.T, cnt)
}

// convert integer value to another integer type
func (v *FV) convInt(x TV, to types.Type) Term {
	fb, fs, ok1 := intInfo(x.Ty)
	tb, _, ok2 := intInfo(to)
	if !ok1 || !ok2 {
		fail("convInt on non-integers")
	}
	if v.mode == ModeMath {
		// range obligations are generated by the executor; in contracts a narrowing conversion truncates
		if tb < fb {
			_, tsg, _ := intInfo(to)
			m := new(big.Int).Lsh(big.NewInt(1), uint(tb)).String()
			if !tsg {
				return fmt.Sprintf("(mod %s %s)", x.T, m)
			}
			h := new(big.Int).Lsh(big.NewInt(1), uint(tb-1)).String()
			return fmt.Sprintf("(- (mod (+ %s %s) %s) %s)", x.T, h, m, h)
		}
		return x.T
	}
	if tb == fb {
		return x.T
	}
	if tb < fb {
		return fmt.Sprintf("((_ extract %d 0) %s)", tb-1, x.T)
	}
	if fs {
		return fmt.Sprintf("((_ sign_extend %d) %s)", tb-fb, x.T)
	}
	return fmt.Sprintf("((_ zero_extend %d) %s)", tb-fb, x.T)
}

func (env *ExprEnv) call(e *ast.CallExpr) TV {
	v := env.v
	fname := ""
	switch f := e.Fun.(type) {
	case *ast.Ident:
		fname = f.Name
	case *ast.SelectorExpr:
		fname = types.ExprString(f)
	default:
		// conversion like []byte(x) or (*T)(x)
		fname = types.ExprString(e.Fun)
	}
	switch fname {
	case "old":
		if env.old == nil {
			fail("old() not available here")
		}
		saved := env.inOld
		env.inOld = true
		r := env.eval(e.Args[0])
		env.inOld = saved
		return r
	case "implies":
		a := env.coerce(env.eval(e.Args[0]), nil, "")
		if a.T == "false" {
			return TV{T: "true", Ty: types.Typ[types.Bool], Sort: "Bool"}
		}
		b := env.coerce(env.eval(e.Args[1]), nil, "")
		return TV{T: fmt.Sprintf("(=> %s %s)", a.T, b.T), Ty: types.Typ[types.Bool], Sort: "Bool"}
	case "hint":
		// hint(t, body) means body; when body is a goal the ground term t is made visible to
		// the solver's quantifier instantiation (mark is true everywhere)
		t := env.coerce(env.eval(e.Args[0]), nil, "")
		b := env.coerce(env.eval(e.Args[1]), nil, "")
		fn := "mark_" + mangle(t.Sort)
		v.pre("fn "+fn, fmt.Sprintf("(declare-fun %s (%s) Bool)", fn, t.Sort))
		v.pre("fnax "+fn, fmt.Sprintf("(assert (forall ((x %s)) (! (%s x) :pattern ((%s x)))))", t.Sort, fn, fn))
		return TV{T: fmt.Sprintf("(=> (%s %s) %s)", fn, t.T, b.T), Ty: types.Typ[types.Bool], Sort: "Bool"}
	case "iff":
		a := env.coerce(env.eval(e.Args[0]), nil, "")
		b := env.coerce(env.eval(e.Args[1]), nil, "")
		return TV{T: fmt.Sprintf("(= %s %s)", a.T, b.T), Ty: types.Typ[types.Bool], Sort: "Bool"}
	case "ite":
		c := env.eval(e.Args[0])
		a := env.eval(e.Args[1])
		b := env.eval(e.Args[2])
		if a.Ty == nil {
			a = env.coerce(a, b.Ty, b.Sort)
		}
		if b.Ty == nil {
			b = env.coerce(b, a.Ty, a.Sort)
		}
		return TV{T: fmt.Sprintf("(ite %s %s %s)", c.T, a.T, b.T), Ty: a.Ty, Sort: a.Sort}
	case "store":
		m := env.eval(e.Args[0])
		mt, ok := m.Ty.(*types.Map)
		if !ok {
			fail("store on non ghost map")
		}
		k := env.coerce(env.eval(e.Args[1]), mt.Key(), v.ghostSort(mt.Key()))
		x := env.coerce(env.eval(e.Args[2]), mt.Elem(), v.ghostSort(mt.Elem()))
		return TV{T: fmt.Sprintf("(store %s %s %s)", m.T, k.T, x.T), Ty: m.Ty, Sort: m.Sort}
	case "allof":
		return env.quantMulti(e)
	case "forall", "exists", "all", "any":
		return env.quant(fname, e)
	case "len", "cap":
		x := env.eval(e.Args[0])
		ity := types.Typ[types.Int]
		switch {
		case x.Sort == "Slice":
			return TV{T: fmt.Sprintf("(sl_%s %s)", fname, x.T), Ty: ity, Sort: v.idx()}
		case x.Sort == "Str":
			return TV{T: fmt.Sprintf("(str_len %s)", x.T), Ty: ity, Sort: v.idx()}
		}
		if _, ok := x.Ty.Underlying().(*types.Map); ok && x.Sort == "Int" {
			return TV{T: v.rd(env.heapNow(), v.mapLenArray(), x.T), Ty: ity, Sort: v.idx()}
		}
		fail("len of %s", x.Sort)
	case "has":
		// has(m, k): key k present in Go map m
		m := env.eval(e.Args[0])
		mt, ok := m.Ty.Underlying().(*types.Map)
		if !ok || m.Sort != "Int" {
			fail("has() on non-map")
		}
		k := env.coerce(env.eval(e.Args[1]), mt.Key(), v.sortOf(mt.Key()))
		dom, _ := v.mapArrays(mt)
		return TV{T: fmt.Sprintf("(and (not (= %s 0)) (select %s %s))", m.T, v.rd(env.heapNow(), dom, m.T), k.T), Ty: types.Typ[types.Bool], Sort: "Bool"}
	case "now":
		// now(): logical time = number of calls made so far by the function under verification
		v.regArray("CLOCK", fmt.Sprintf("(Array Int %s)", v.idx()))
		return TV{T: v.rd(env.heapNow(), "CLOCK", "0"), Ty: types.Typ[types.Int], Sort: v.idx()}
	case "locked":
		// locked(x.mu): this thread holds lock field mu of object x (read or write)
		se, ok := e.Args[0].(*ast.SelectorExpr)
		if !ok {
			fail("locked(x.mu) expected")
		}
		x := env.eval(se.X)
		if x.Ty == nil {
			fail("locked: untyped owner")
		}
		ot := types.Unalias(x.Ty)
		if p, ok := ot.Underlying().(*types.Pointer); ok {
			ot = p.Elem()
		}
		v.regArray("LOCKED", "(Array Int Bool)")
		return TV{T: v.rd(env.heapNow(), "LOCKED", v.lockKey(typeKey(ot), se.Sel.Name, x.T)), Ty: types.Typ[types.Bool], Sort: "Bool"}
	case "lastarg":
		f := env.eval(e.Args[0])
		if f.Sort != "Int" {
			fail("lastarg() of a non-function value")
		}
		v.regArray("ARGV", fmt.Sprintf("(Array Int %s)", v.idx()))
		return TV{T: v.rd(env.heapNow(), "ARGV", f.T), Ty: types.Typ[types.Int64], Sort: v.idx()}
	case "calledat", "lasterrnil":
		// calledat(f) / calledat(x.M): logical time (now()) of the last invocation of function value f / of
		// method M on interface value x; lasterrnil(...): that invocation returned a nil error
		arr, srt := "STAMP", v.idx()
		if fname == "lasterrnil" {
			arr, srt = "RESNIL", "Bool"
		}
		v.regArray(arr, fmt.Sprintf("(Array Int %s)", srt))
		rty := types.Type(types.Typ[types.Int])
		if srt == "Bool" {
			rty = types.Typ[types.Bool]
		}
		if se, ok := e.Args[0].(*ast.SelectorExpr); ok {
			if x, ok := env.tryEval(se.X); ok && x.Ty != nil {
				if it, isI := x.Ty.Underlying().(*types.Interface); isI {
					for i := 0; i < it.NumMethods(); i++ {
						if it.Method(i).Name() == se.Sel.Name {
							return TV{T: v.rd(env.heapNow(), arr, v.methodKey(x.T, se.Sel.Name)), Ty: rty, Sort: srt}
						}
					}
				}
			}
		}
		f := env.eval(e.Args[0])
		if f.Sort != "Int" {
			fail("%s() of a non-function value", fname)
		}
		return TV{T: v.rd(env.heapNow(), arr, f.T), Ty: rty, Sort: srt}
	case "calls", "lastnonnil":
		// calls(f): number of invocations of function value f so far (ghost trace);
		// calls(x.M) with x of interface type: invocations of method M on that value
		if se, ok := e.Args[0].(*ast.SelectorExpr); ok && fname == "calls" {
			if x, ok := env.tryEval(se.X); ok && x.Ty != nil {
				if it, isI := x.Ty.Underlying().(*types.Interface); isI {
					for i := 0; i < it.NumMethods(); i++ {
						if it.Method(i).Name() == se.Sel.Name {
							v.regArray("CALLS", fmt.Sprintf("(Array Int %s)", v.idx()))
							return TV{T: v.rd(env.heapNow(), "CALLS", v.methodKey(x.T, se.Sel.Name)), Ty: types.Typ[types.Int], Sort: v.idx()}
						}
					}
				}
			}
		}
		f := env.eval(e.Args[0])
		if f.Sort != "Int" {
			fail("%s() of a non-function value", fname)
		}
		v.regArray("CALLS", fmt.Sprintf("(Array Int %s)", v.idx()))
		v.regArray("ARGNN", "(Array Int Bool)")
		if fname == "calls" {
			return TV{T: v.rd(env.heapNow(), "CALLS", f.T), Ty: types.Typ[types.Int], Sort: v.idx()}
		}
		return TV{T: v.rd(env.heapNow(), "ARGNN", f.T), Ty: types.Typ[types.Bool], Sort: "Bool"}
	case "cast":
		// cast(x, "T"): reinterpret a reference (interface value) as type T. Trusted:
		// used for views of interfaces with a single production implementation.
		x := env.eval(e.Args[0])
		lit, ok := e.Args[1].(*ast.BasicLit)
		if !ok {
			fail("cast needs a string literal type")
		}
		ts, _ := strconv.Unquote(lit.Value)
		ty := v.parseType(ts, env.pkg)
		if ty == nil {
			fail("cast: unknown type %s", ts)
		}
		if x.Sort == "Int" && v.sortOf(ty) != "Int" {
			// an interface value holding a non-pointer value (slice, struct, ...): unbox it
			ts2 := v.sortOf(ty)
			fn := "box_" + mangle(ts2)
			v.pre("fn "+fn, fmt.Sprintf("(declare-fun %s (%s) Int)", fn, ts2))
			v.pre("fnu "+fn, fmt.Sprintf("(declare-fun un%s (Int) %s)", fn, ts2))
			v.pre("fnax "+fn, fmt.Sprintf("(assert (forall ((x %s)) (! (and (= (un%s (%s x)) x) (> (%s x) 0)) :pattern ((%s x)))))", ts2, fn, fn, fn, fn))
			return TV{T: fmt.Sprintf("(un%s %s)", fn, x.T), Ty: ty, Sort: ts2}
		}
		if x.Sort != "Int" || v.sortOf(ty) != "Int" {
			fail("cast between non-reference sorts")
		}
		return TV{T: x.T, Ty: ty, Sort: "Int"}
	case "contents":
		// contents(s): the backing array of slice s as a pure array (meaningful when offset(s) == 0)
		x := env.eval(e.Args[0])
		if x.Sort != "Slice" {
			fail("contents of non-slice")
		}
		sl := x.Ty.Underlying().(*types.Slice)
		arr := v.elemArray(sl.Elem())
		if env.heapNow() == nil {
			fail("heap access in pure context")
		}
		return TV{T: v.rd(env.heapNow(), arr, v.arrOf(x.T)), Ty: types.NewMap(types.Typ[types.Int], sl.Elem()), Sort: fmt.Sprintf("(Array %s %s)", v.idx(), v.sortOf(sl.Elem()))}
	case "str":
		// str(b): the string a []byte converts to now - a function of the slice header and of the
		// contents of its backing array (same term as the code's string(b) conversion)
		x := env.eval(e.Args[0])
		if x.Sort != "Slice" {
			fail("str of non-slice")
		}
		if env.heapNow() == nil {
			fail("heap access in pure context")
		}
		return TV{T: v.bytesToStr(env.heapNow(), x), Ty: types.Typ[types.String], Sort: "Str"}
	case "offset":
		x := env.eval(e.Args[0])
		if x.Sort != "Slice" {
			fail("offset of non-slice")
		}
		return TV{T: fmt.Sprintf("(sl_off %s)", x.T), Ty: types.Typ[types.Int], Sort: v.idx()}
	case "owns":
		// owns(o, s): the backing array of slice s belongs to object o (distinct owners have distinct arrays)
		o := env.eval(e.Args[0])
		x := env.eval(e.Args[1])
		v.pre("slice_owner", "(declare-fun slice_owner (Int) Int)")
		if x.Sort == "Int" && o.Sort == "Int" {
			// map (or other reference) owned by o
			return TV{T: fmt.Sprintf("(= (slice_owner %s) %s)", x.T, o.T), Ty: types.Typ[types.Bool], Sort: "Bool"}
		}
		if x.Sort != "Slice" || o.Sort != "Int" {
			fail("owns(object, slice|map)")
		}
		return TV{T: fmt.Sprintf("(= (slice_owner (sl_arr %s)) %s)", x.T, o.T), Ty: types.Typ[types.Bool], Sort: "Bool"}
	case "visited":
		m := env.eval(e.Args[0])
		mt, ok := m.Ty.Underlying().(*types.Map)
		if !ok || m.Sort != "Int" {
			fail("visited() on non-map")
		}
		k := env.coerce(env.eval(e.Args[1]), mt.Key(), v.sortOf(mt.Key()))
		rv := v.rangeVisitedArray(mt)
		return TV{T: fmt.Sprintf("(select %s %s)", v.rd(env.heapNow(), rv, m.T), k.T), Ty: types.Typ[types.Bool], Sort: "Bool"}
	case "allocated":
		// allocated(x): the object (or the backing array of the slice) exists now, i.e. lies below the allocation counter.
		// True of every value a Go program can hold; as a contract clause it is proved like any other (loop invariants
		// need it for references read from havocked containers: a later allocation is then known to be a different object)
		x := env.eval(e.Args[0])
		if env.heapNow() == nil {
			fail("allocated() in a pure context")
		}
		t := x.T
		if x.Sort == "Slice" {
			t = fmt.Sprintf("(sl_arr %s)", x.T)
		}
		return TV{T: fmt.Sprintf("(< %s %s)", t, v.topOf(env.heapNow())), Ty: types.Typ[types.Bool], Sort: "Bool"}
	case "fresh":
		x := env.eval(e.Args[0])
		if env.freshBase != "" {
			// at a call site: allocated during the call
			t := x.T
			if x.Sort == "Slice" {
				t = fmt.Sprintf("(sl_arr %s)", x.T)
			}
			return TV{T: fmt.Sprintf("(>= %s %s)", t, env.freshBase), Ty: types.Typ[types.Bool], Sort: "Bool"}
		}
		if x.Sort == "Slice" {
			return TV{T: fmt.Sprintf("(> (sl_arr %s) %s)", x.T, v.n0), Ty: types.Typ[types.Bool], Sort: "Bool"}
		}
		return TV{T: fmt.Sprintf("(> %s %s)", x.T, v.n0), Ty: types.Typ[types.Bool], Sort: "Bool"}
	case "typeis":
		// typeis(x, "pkg.Type")
		x := env.eval(e.Args[0])
		lit, ok := e.Args[1].(*ast.BasicLit)
		if !ok {
			fail("typeis needs a string literal")
		}
		s, _ := strconv.Unquote(lit.Value)
		ty := v.parseType(s, env.pkg)
		if ty == nil {
			if strings.Contains(s, "/") {
				// a fully qualified type of a package that is not part of the loaded program:
				// no value of this program has it
				return TV{T: "false", Ty: types.Typ[types.Bool], Sort: "Bool"}
			}
			fail("typeis: unknown type %s", s)
		}
		// a nil interface value has no dynamic type
		return TV{T: fmt.Sprintf("(and (not (= %s 0)) (= (dyn_type %s) %s))", x.T, x.T, v.typeID(ty)), Ty: types.Typ[types.Bool], Sort: "Bool"}
	}
	// pure / uf (optionally package-qualified: page.get64)
	if i := strings.LastIndex(fname, "."); i > 0 {
		if _, ok := v.eng.db.Pure[fname[i+1:]]; ok {
			if _, isVar := env.vars[fname[:i]]; !isVar {
				fname = fname[i+1:]
			}
		}
	}
	if p, ok := v.eng.db.Pure[fname]; ok {
		if p.Macro {
			return env.callMacro(p, e.Args)
		}
		return env.callPure(p, e.Args)
	}
	// conversion?
	if ty := v.parseType(fname, env.pkg); ty != nil && len(e.Args) == 1 {
		x := env.eval(e.Args[0])
		if x.Ty == nil {
			return env.coerce(x, ty, v.sortOf(ty))
		}
		if _, _, ok := intInfo(ty); ok {
			if _, _, ok2 := intInfo(x.Ty); ok2 {
				return TV{T: v.convInt(x, ty), Ty: ty, Sort: v.sortOf(ty)}
			}
		}
		if v.sortOf(ty) == x.Sort {
			return TV{T: x.T, Ty: ty, Sort: x.Sort}
		}
		fail("unsupported conversion %s(%s)", fname, x.Sort)
	}
	// Go method / function call evaluated by symbolic inlining
	if tv, ok := env.callGo(e); ok {
		return tv
	}
	fail("unknown function %s", fname)
	return TV{}
}

func (v *FV) typeID(t types.Type) Term {
	v.pre("dyn_type", "(declare-fun dyn_type (Int) Int)")
	name := "tid_" + mangle(t.String())
	if !v.preSeen["tid "+name] {
		v.preSeen["tid "+name] = true
		n := 0
		for k := range v.preSeen {
			if strings.HasPrefix(k, "tid ") {
				n++
			}
		}
		v.preamble = append(v.preamble, fmt.Sprintf("(define-fun %s () Int %d)", name, n))
	}
	return name
}

// quantMulti: allof(x, "T1", y, "T2", ..., body) is one universal quantifier over all the
// variables; body may be trigger(t1, ..., tn, b): b with the multi-pattern (t1 ... tn).
func (env *ExprEnv) quantMulti(e *ast.CallExpr) TV {
	v := env.v
	if len(e.Args) < 3 || len(e.Args)%2 != 1 {
		fail("allof(x, \"T\", ..., body)")
	}
	type saved struct {
		name string
		tv   TV
		had  bool
	}
	var sv []saved
	var binders, guards []string
	for i := 0; i+1 < len(e.Args); i += 2 {
		id, ok := e.Args[i].(*ast.Ident)
		lit, ok2 := e.Args[i+1].(*ast.BasicLit)
		if !ok || !ok2 {
			fail("allof: binder %d must be name, \"type\"", i/2+1)
		}
		ts, _ := strconv.Unquote(lit.Value)
		bty := v.parseType(ts, env.pkg)
		if bty == nil {
			fail("unknown type %s", ts)
		}
		bs := v.sortOf(bty)
		if _, isMap := bty.(*types.Map); isMap {
			bs = v.ghostSort(bty)
		}
		v.ctr++
		bname := fmt.Sprintf("%s_q%d", mangle(id.Name), v.ctr)
		old, had := env.vars[id.Name]
		sv = append(sv, saved{id.Name, old, had})
		env.vars[id.Name] = TV{T: bname, Ty: bty, Sort: bs}
		binders = append(binders, fmt.Sprintf("(%s %s)", bname, bs))
		if _, _, isInt := intInfo(bty); isInt {
			if g := v.rangeFact(bname, bty); g != "true" {
				guards = append(guards, g)
			}
		}
	}
	body := e.Args[len(e.Args)-1]
	var pats []string
	v.inBinder++
	b := func() TV {
		defer func() { v.inBinder-- }()
		if ce, ok := body.(*ast.CallExpr); ok {
			if fid, ok := ce.Fun.(*ast.Ident); ok && fid.Name == "trigger" && len(ce.Args) >= 2 {
				for _, a := range ce.Args[:len(ce.Args)-1] {
					pats = append(pats, env.eval(a).T)
				}
				return env.coerce(env.eval(ce.Args[len(ce.Args)-1]), nil, "")
			}
		}
		return env.coerce(env.eval(body), nil, "")
	}()
	for _, s := range sv {
		if s.had {
			env.vars[s.name] = s.tv
		} else {
			delete(env.vars, s.name)
		}
	}
	guard := "true"
	if len(guards) > 0 {
		guard = "(and " + strings.Join(guards, " ") + ")"
	}
	inner := fmt.Sprintf("(=> %s %s)", guard, b.T)
	if len(pats) > 0 && !v.noTriggers {
		inner = fmt.Sprintf("(! %s :pattern (%s))", inner, strings.Join(pats, " "))
	}
	return TV{T: fmt.Sprintf("(forall (%s) %s)", strings.Join(binders, " "), inner), Ty: types.Typ[types.Bool], Sort: "Bool"}
}

func (env *ExprEnv) quant(kind string, e *ast.CallExpr) TV {
	v := env.v
	id, ok := e.Args[0].(*ast.Ident)
	if !ok {
		fail("%s: first argument must be an identifier", kind)
	}
	bounded := kind == "forall" || kind == "exists"
	var lo, hi TV
	var body ast.Expr
	bty := types.Type(types.Typ[types.Int])
	if bounded {
		if len(e.Args) != 4 {
			fail("%s(i, lo, hi, body)", kind)
		}
		lo = env.eval(e.Args[1])
		hi = env.eval(e.Args[2])
		if lo.Ty != nil {
			bty = lo.Ty
		} else if hi.Ty != nil {
			bty = hi.Ty
		}
		body = e.Args[3]
	} else {
		if len(e.Args) == 3 {
			// all(i, "type", body)
			lit, ok := e.Args[1].(*ast.BasicLit)
			if !ok {
				fail("all(i, \"type\", body)")
			}
			s, _ := strconv.Unquote(lit.Value)
			bty = v.parseType(s, env.pkg)
			if bty == nil {
				fail("unknown type %s", s)
			}
			body = e.Args[2]
		} else {
			body = e.Args[1]
		}
	}
	bs := v.sortOf(bty)
	if _, isMap := bty.(*types.Map); isMap {
		bs = v.ghostSort(bty)
	}
	lo = env.coerce(lo, bty, bs)
	hi = env.coerce(hi, bty, bs)
	v.ctr++
	bname := fmt.Sprintf("%s_q%d", mangle(id.Name), v.ctr)
	saved, had := env.vars[id.Name]
	env.vars[id.Name] = TV{T: bname, Ty: bty, Sort: bs}
	v.inBinder++
	b := func() TV {
		defer func() { v.inBinder-- }()
		return env.coerce(env.eval(body), nil, "")
	}()
	if had {
		env.vars[id.Name] = saved
	} else {
		delete(env.vars, id.Name)
	}
	_, signed, isInt := intInfo(bty)
	guard := "true"
	if bounded {
		guard = fmt.Sprintf("(and (%s %s %s) (%s %s %s))", v.cmpOp("<=", signed), lo.T, bname, v.cmpOp("<", signed), bname, hi.T)
	} else if isInt {
		guard = v.rangeFact(bname, bty)
	}
	var t Term
	if kind == "forall" || kind == "all" {
		t = fmt.Sprintf("(forall ((%s %s)) (=> %s %s))", bname, bs, guard, b.T)
	} else {
		t = fmt.Sprintf("(exists ((%s %s)) (and %s %s))", bname, bs, guard, b.T)
	}
	return TV{T: t, Ty: types.Typ[types.Bool], Sort: "Bool"}
}

func (env *ExprEnv) callPure(p *PureFn, args []ast.Expr) TV {
	v := env.v
	if len(args) != len(p.Params) {
		fail("%s expects %d arguments", p.Name, len(p.Params))
	}
	name := v.declPure(p)
	ppkg := v.pkgOf(p.Pkg)
	if ppkg == nil {
		ppkg = env.pkg
	}
	var ts []string
	for i, a := range args {
		pt := v.parseType(p.Params[i].Type, ppkg)
		if pt == nil {
			fail("pure %s: unknown parameter type %s", p.Name, p.Params[i].Type)
		}
		x := env.coerce(env.eval(a), pt, v.ghostSort(pt))
		if x.Sort != v.ghostSort(pt) {
			fail("pure %s: argument %d has sort %s, want %s", p.Name, i, x.Sort, v.ghostSort(pt))
		}
		ts = append(ts, x.T)
	}
	rt := v.parseType(p.Ret, ppkg)
	if rt == nil {
		fail("pure %s: unknown result type %s", p.Name, p.Ret)
	}
	t := name
	if len(ts) > 0 {
		t = fmt.Sprintf("(%s %s)", name, strings.Join(ts, " "))
	}
	return TV{T: t, Ty: rt, Sort: v.ghostSort(rt)}
}

// declPure declares (uf) or defines (pure with body) a spec function in the preamble.
func (v *FV) declPure(p *PureFn) string {
	name := "sp_" + mangle(p.Name)
	if v.preSeen["pure "+name] {
		return name
	}
	v.preSeen["pure "+name] = true
	ppkg := v.pkgOf(p.Pkg)
	var ps []string
	var sorts []string
	vars := map[string]TV{}
	for _, a := range p.Params {
		pt := v.parseType(a.Type, ppkg)
		if pt == nil {
			fail("pure %s: unknown type %s", p.Name, a.Type)
		}
		s := v.ghostSort(pt)
		an := "p_" + mangle(a.Name)
		ps = append(ps, fmt.Sprintf("(%s %s)", an, s))
		sorts = append(sorts, s)
		vars[a.Name] = TV{T: an, Ty: pt, Sort: s}
	}
	rt := v.parseType(p.Ret, ppkg)
	if rt == nil {
		fail("pure %s: unknown result type %s", p.Name, p.Ret)
	}
	rs := v.ghostSort(rt)
	hidden := false
	if v.con != nil {
		for _, o := range v.con.Opaque2 {
			if o == p.Name {
				hidden = true
			}
		}
	}
	if hidden {
		v.preamble = append(v.preamble, fmt.Sprintf("(declare-fun %s (%s) %s)", name, strings.Join(sorts, " "), rs))
		return name
	}
	if p.Body == "" {
		v.preamble = append(v.preamble, fmt.Sprintf("(declare-fun %s (%s) %s)", name, strings.Join(sorts, " "), rs))
		v.trusted["uninterpreted spec function "+p.Name] = true
		return name
	}
	sub := &ExprEnv{v: v, vars: vars, pkg: ppkg, what: "pure " + p.Name}
	ex, err := parseContractExpr(p.Body)
	if err != nil {
		fail("pure %s: %v", p.Name, err)
	}
	// reserve slot so that functions used by the body are declared before it
	b := sub.coerce(sub.eval(ex), rt, rs)
	if len(ps) == 0 {
		v.preamble = append(v.preamble, fmt.Sprintf("(define-fun %s () %s %s)", name, rs, b.T))
	} else {
		v.preamble = append(v.preamble, fmt.Sprintf("(define-fun %s (%s) %s %s)", name, strings.Join(ps, " "), rs, b.T))
	}
	return name
}

// callMacro expands a heap-dependent predicate at the use site (same heap, same old()).
func (env *ExprEnv) callMacro(p *PureFn, args []ast.Expr) TV {
	v := env.v
	if len(args) != len(p.Params) {
		fail("%s expects %d arguments", p.Name, len(p.Params))
	}
	ppkg := v.pkgOf(p.Pkg)
	if ppkg == nil {
		ppkg = env.pkg
	}
	vars := map[string]TV{}
	for i, a := range args {
		pt := v.parseType(p.Params[i].Type, ppkg)
		if pt == nil {
			fail("predicate %s: unknown parameter type %s", p.Name, p.Params[i].Type)
		}
		x := env.coerce(env.eval(a), pt, v.ghostSort(pt))
		if x.Sort != v.ghostSort(pt) {
			fail("predicate %s: argument %d has sort %s, want %s (%s)", p.Name, i, x.Sort, v.ghostSort(pt), p.Params[i].Type)
		}
		vars[p.Params[i].Name] = TV{T: x.T, Ty: pt, Sort: x.Sort}
	}
	sub := &ExprEnv{v: v, vars: vars, snap: env.snap, old: env.old, inOld: env.inOld, pkg: ppkg, reach: env.reach, what: "predicate " + p.Name}
	ex, err := parseContractExpr(p.Body)
	if err != nil {
		fail("predicate %s: %v", p.Name, err)
	}
	rt := v.parseType(p.Ret, ppkg)
	r := sub.eval(ex)
	if rt != nil {
		r = sub.coerce(r, rt, v.ghostSort(rt))
	}
	return r
}
