package main

import (
	"os"
	"fmt"
	"go/ast"
	"go/constant"
	"go/token"
	"go/types"
	"math/big"
	"sort"
	"strings"

	"golang.org/x/tools/go/ssa"
)

type State struct {
	panicking bool // a panic is propagating (deferred calls are running)
	recovered bool // recover() stopped it
	held   map[string]string // lock decl key + "@" + owner term -> "w" | "r"
	reach  Term
	snap   *Snapshot
	env    map[string]TV // source variable name -> current value
	addr   map[string]TV // source variable name -> address (pointer) when address-taken
	defers []*deferRec
}

func (s *State) clone() *State {
	n := &State{reach: s.reach, snap: s.snap.clone(), env: map[string]TV{}, addr: map[string]TV{}, held: map[string]string{}, panicking: s.panicking, recovered: s.recovered}
	for k, x := range s.held {
		n.held[k] = x
	}
	for k, x := range s.env {
		n.env[k] = x
	}
	for k, x := range s.addr {
		n.addr[k] = x
	}
	n.defers = append([]*deferRec(nil), s.defers...)
	return n
}

type deferRec struct {
	call  *ssa.CallCommon
	args  []TV
	fnVal TV
	cond  Term
	instr *ssa.Defer
}

type closureInfo struct {
	fn       *ssa.Function
	bindings []TV
}

type Loc struct {
	slice Term   // kind 3: the slice value and plain index (for trigger-friendly reads)
	pidx  Term
	es    string
	kind  int // 1 field, 2 cell, 3 elem, 4 struct object (ref), 5 array-in-cell element, 6 field of a struct value at inner
	arr   string
	ref   Term
	idx   Term
	ty    types.Type // element type at this location
	st    types.Type // for kind 1: struct type; field index fi
	fi    int
	inner *Loc // for kind 5: location of the array value
}

type Frame struct {
	cellVars     map[string]TV // named variables that live in heap cells (escaping / captured)
	fieldFnOwner map[ssa.Value]ssa.Value // call value (load of x.f) -> x, for function-valued fields under contract
	fn       *ssa.Function
	vals     map[ssa.Value]TV
	tuples   map[ssa.Value][]TV
	locs     map[ssa.Value]*Loc
	closures map[ssa.Value]*closureInfo
	depth    int
	prefix   string
	oldSnap  *Snapshot
	params   map[string]TV
	isTop    bool
	con      *Contract
	loops    []*loopInfo
	loopOf   map[*ssa.BasicBlock]*loopInfo
}

type Exit struct {
	st        *State
	results   []TV
	panics    bool
	recovered bool
}

type loopInfo struct {
	header  *ssa.BasicBlock
	body    map[*ssa.BasicBlock]bool
	backs   []*ssa.BasicBlock
	ordinal int
	minPos  token.Pos
	// filled at header processing
	headerState *State
	phiTerms    map[*ssa.Phi]TV
	decAtHead   []TV
	frameArrs   []string
	frameAllowed map[string][]Term
}

func (v *FV) note(format string, a ...interface{}) {
	s := fmt.Sprintf(format, a...)
	for _, n := range v.notes {
		if n == s {
			return
		}
	}
	v.notes = append(v.notes, s)
}

// ---------- values

func (v *FV) val(fr *Frame, x ssa.Value) TV {
	if tv, ok := fr.vals[x]; ok {
		return tv
	}
	switch x := x.(type) {
	case *ssa.Const:
		return v.constVal(x)
	case *ssa.Global:
		name := "glob_" + mangle(shortPkg(x.Pkg.Pkg.Path())+"_"+x.Name())
		v.pre("glob "+name, fmt.Sprintf("(declare-const %s Int)", name))
		v.pre("globpos "+name, fmt.Sprintf("(assert (and (> %s 0) (<= %s N0!)))", name, name))
		return TV{T: name, Ty: x.Type(), Sort: "Int"}
	case *ssa.Function:
		name := "fn_" + mangle(fnKey(x))
		v.pre("fnc "+name, fmt.Sprintf("(declare-const %s Int)", name))
		v.pre("fncpos "+name, fmt.Sprintf("(assert (> %s 0))", name))
		return TV{T: name, Ty: x.Type(), Sort: "Int"}
	case *ssa.Builtin:
		return TV{T: "0", Ty: x.Type(), Sort: "Int"}
	}
	// value not computed (e.g. defined in an unreachable block): fresh
	t := v.declare("undef_"+x.Name(), v.sortOf(x.Type()))
	tv := TV{T: t, Ty: x.Type(), Sort: v.sortOf(x.Type())}
	fr.vals[x] = tv
	return tv
}

func (v *FV) constVal(c *ssa.Const) TV {
	ty := c.Type()
	s := v.sortOf(ty)
	if c.Value == nil {
		return TV{T: v.zero(ty), Ty: ty, Sort: s}
	}
	switch {
	case isBool(ty):
		if constant.BoolVal(c.Value) {
			return TV{T: "true", Ty: ty, Sort: "Bool"}
		}
		return TV{T: "false", Ty: ty, Sort: "Bool"}
	case isString(ty):
		return TV{T: v.strLit(constant.StringVal(c.Value)), Ty: ty, Sort: "Str"}
	case isFloat(ty):
		return TV{T: v.floatConst(c.Value.ExactString()), Ty: ty, Sort: "F64"}
	}
	if bits, _, ok := intInfo(ty); ok {
		iv := constant.ToInt(c.Value)
		n, _ := new(big.Int).SetString(iv.ExactString(), 10)
		return TV{T: v.intLit(n, bits), Ty: ty, Sort: s}
	}
	return TV{T: v.zero(ty), Ty: ty, Sort: s}
}

func (v *FV) setVal(fr *Frame, x ssa.Value, t Term) TV {
	s := v.sortOf(x.Type())
	name := v.define(fr.prefix+x.Name(), s, t)
	if s == "Slice" && strings.HasPrefix(t, "(mk_slice ") && name != t {
		if f := strings.Fields(t); len(f) > 1 {
			a := f[1]
			if strings.HasPrefix(a, "(sl_arr ") {
				// re-slicing: same backing array as the source slice
				src := strings.TrimSuffix(strings.TrimPrefix(a, "(sl_arr "), ")")
				if known, ok := v.sliceArr[src]; ok {
					a = known
				}
			}
			if !strings.HasPrefix(a, "(") {
				v.sliceArr[name] = a
			}
		}
	}
	tv := TV{T: name, Ty: x.Type(), Sort: s}
	fr.vals[x] = tv
	return tv
}

func (v *FV) freshVal(fr *Frame, x ssa.Value, st *State) TV {
	s := v.sortOf(x.Type())
	name := v.declare(fr.prefix+x.Name(), s)
	tv := TV{T: name, Ty: x.Type(), Sort: s}
	v.assume(st.reach, v.typeFacts(name, x.Type()))
	fr.vals[x] = tv
	return tv
}

// ---------- locations

func (v *FV) locOf(fr *Frame, st *State, p ssa.Value) *Loc {
	if l, ok := fr.locs[p]; ok {
		return l
	}
	pt, ok := p.Type().Underlying().(*types.Pointer)
	if !ok {
		return nil
	}
	ref := v.val(fr, p).T
	elem := pt.Elem()
	if _, isS := elem.Underlying().(*types.Struct); isS {
		return &Loc{kind: 4, ref: ref, ty: elem}
	}
	return &Loc{kind: 2, arr: v.cellArray(elem), ref: ref, ty: elem}
}

func (v *FV) load(st *State, l *Loc) Term {
	switch l.kind {
	case 1:
		return v.loadField(st.snap, l.st, l.fi, l.ref)
	case 2:
		return v.rd(st.snap, l.arr, l.ref)
	case 3:
		if l.slice != "" {
			return v.sliceElemAt(st.snap, l.arr, l.es, l.slice, l.pidx)
		}
		return fmt.Sprintf("(select %s %s)", v.rd(st.snap, l.arr, l.ref), l.idx)
	case 4:
		return v.loadStruct(st.snap, l.ty, l.ref)
	case 5:
		return fmt.Sprintf("(select %s %s)", v.load(st, l.inner), l.idx)
	case 6:
		return fmt.Sprintf("(%s %s)", v.structSel(l.st, l.fi), v.load(st, l.inner))
	}
	panic("bad loc")
}

func (v *FV) store(st *State, l *Loc, val Term) {
	switch l.kind {
	case 1:
		v.storeField(st.snap, l.st, l.fi, l.ref, val)
	case 2:
		v.wr(st.snap, l.arr, l.ref, val)
	case 3:
		v.wr(st.snap, l.arr, l.ref, fmt.Sprintf("(store %s %s %s)", v.rd(st.snap, l.arr, l.ref), l.idx, val))
	case 4:
		v.storeStruct(st.snap, l.ty, l.ref, val)
	case 5:
		v.store(st, l.inner, fmt.Sprintf("(store %s %s %s)", v.load(st, l.inner), l.idx, val))
	case 6:
		// field of a struct value stored at another location (slice element, array element, cell)
		u := l.st.Underlying().(*types.Struct)
		cur := v.load(st, l.inner)
		var fs []string
		for i := 0; i < u.NumFields(); i++ {
			if i == l.fi {
				fs = append(fs, val)
			} else {
				fs = append(fs, fmt.Sprintf("(%s %s)", v.structSel(l.st, i), cur))
			}
		}
		v.store(st, l.inner, fmt.Sprintf("(mk_%s %s)", v.structSort(l.st, u), strings.Join(fs, " ")))
	}
}

// ---------- function analysis

func rpo(fn *ssa.Function) []*ssa.BasicBlock {
	seen := map[*ssa.BasicBlock]bool{}
	var order []*ssa.BasicBlock
	var dfs func(b *ssa.BasicBlock)
	dfs = func(b *ssa.BasicBlock) {
		seen[b] = true
		for i := len(b.Succs) - 1; i >= 0; i-- {
			s := b.Succs[i]
			if !seen[s] {
				dfs(s)
			}
		}
		order = append(order, b)
	}
	dfs(fn.Blocks[0])
	for i, j := 0, len(order)-1; i < j; i, j = i+1, j-1 {
		order[i], order[j] = order[j], order[i]
	}
	return order
}

func findLoops(fn *ssa.Function) []*loopInfo {
	byHeader := map[*ssa.BasicBlock]*loopInfo{}
	var loops []*loopInfo
	for _, b := range fn.Blocks {
		for _, s := range b.Succs {
			if s.Dominates(b) {
				li := byHeader[s]
				if li == nil {
					li = &loopInfo{header: s, body: map[*ssa.BasicBlock]bool{s: true}}
					byHeader[s] = li
					loops = append(loops, li)
				}
				li.backs = append(li.backs, b)
				// natural loop
				var stack []*ssa.BasicBlock
				if !li.body[b] {
					li.body[b] = true
					stack = append(stack, b)
				}
				for len(stack) > 0 {
					n := stack[len(stack)-1]
					stack = stack[:len(stack)-1]
					for _, p := range n.Preds {
						if !li.body[p] {
							li.body[p] = true
							stack = append(stack, p)
						}
					}
				}
			}
		}
	}
	for _, li := range loops {
		li.minPos = token.Pos(1 << 40)
		for b := range li.body {
			for _, in := range b.Instrs {
				if _, isPhi := in.(*ssa.Phi); isPhi {
					continue // a phi carries the position of the variable's declaration
				}
				if p := in.Pos(); p.IsValid() && p < li.minPos {
					li.minPos = p
				}
			}
		}
	}
	sort.Slice(loops, func(i, j int) bool {
		if loops[i].minPos != loops[j].minPos {
			return loops[i].minPos < loops[j].minPos
		}
		return len(loops[i].body) > len(loops[j].body)
	})
	for i, li := range loops {
		li.ordinal = i + 1
	}
	return loops
}

// modifiedArrays: heap arrays that may be written inside the given blocks; nil = all.
func (v *FV) modifiedIn(fr *Frame, blocks map[*ssa.BasicBlock]bool) map[string]bool {
	mod := map[string]bool{}
	all := false
	var scanFn func(fn *ssa.Function, depth int, blocks map[*ssa.BasicBlock]bool)
	scanFn = func(fn *ssa.Function, depth int, blocks map[*ssa.BasicBlock]bool) {
		for _, b := range fn.Blocks {
			if blocks != nil && !blocks[b] {
				continue
			}
			for _, in := range b.Instrs {
				switch in := in.(type) {
				case *ssa.Store:
					v.addrArrays(in.Addr, mod, &all)
				case *ssa.MapUpdate:
					if m, ok := in.Map.Type().Underlying().(*types.Map); ok {
						d, val := v.mapArrays(m)
						sfx := ""
						if staticNew(in.Map, 0) {
							sfx = "$n"
						}
						mod[d+sfx], mod[val+sfx], mod[v.mapLenArray()+sfx] = true, true, true
					}
				case *ssa.Next:
					if rg, ok := in.Iter.(*ssa.Range); ok {
						if m, ok := rg.X.Type().Underlying().(*types.Map); ok {
							sfx := ""
							if staticNew(rg.X, 0) {
								sfx = "$n"
							}
							mod[v.rangeVisitedArray(m)+sfx] = true
						}
					}
				case *ssa.Go:
					all = true
				case ssa.CallInstruction:
					cc := in.Common()
					if _, isDefer := in.(*ssa.Defer); isDefer {
						// handled at RunDefers, outside loops normally
					}
					v.callMods(fr, cc, mod, &all, depth, scanFn)
				case *ssa.Send, *ssa.Select:
					all = true
				}
				if all {
					return
				}
			}
		}
	}
	scanFn(fr.fn, 0, blocks)
	if all {
		return nil
	}
	// names recorded as "A" stand for both physical arrays; "A$n" alone means only objects
	// allocated by this function are written
	out := map[string]bool{}
	for a := range mod {
		out[a] = true
		if !strings.HasSuffix(a, "$n") {
			out[a+"$n"] = true
		} else if !v.regions {
			// without the region split (the default) every object lives in the one physical array:
			// a write to an object allocated by this function is a write to that array
			out[strings.TrimSuffix(a, "$n")] = true
		}
	}
	return out
}

// staticNew: the object the value refers to is allocated by the current function.
func staticNew(x ssa.Value, depth int) bool {
	if depth > 6 {
		return false
	}
	switch x := x.(type) {
	case *ssa.Alloc, *ssa.MakeSlice, *ssa.MakeMap, *ssa.MakeClosure:
		return true
	case *ssa.FieldAddr:
		return staticNew(x.X, depth+1)
	case *ssa.IndexAddr:
		return staticNew(x.X, depth+1)
	case *ssa.Slice:
		return staticNew(x.X, depth+1)
	case *ssa.Call:
		if b, ok := x.Call.Value.(*ssa.Builtin); ok && b.Name() == "append" {
			return true
		}
	}
	return false
}

func (v *FV) addrArrays(addr ssa.Value, mod map[string]bool, all *bool) {
	if staticNew(addr, 0) {
		tmp := map[string]bool{}
		v.addrArrays2(addr, tmp, all)
		for a := range tmp {
			mod[a+"$n"] = true
		}
		return
	}
	v.addrArrays2(addr, mod, all)
}

func (v *FV) addrArrays2(addr ssa.Value, mod map[string]bool, all *bool) {
	switch a := addr.(type) {
	case *ssa.FieldAddr:
		// a field of a struct value inside a slice / array element lives in the element array
		for x := a.X; ; {
			if ia, ok := x.(*ssa.IndexAddr); ok {
				v.addrArrays2(ia, mod, all)
				return
			}
			if fa, ok := x.(*ssa.FieldAddr); ok {
				x = fa.X
				continue
			}
			break
		}
		st := a.X.Type().Underlying().(*types.Pointer).Elem()
		v.fieldArraysRec(st, a.Field, mod)
	case *ssa.IndexAddr:
		switch t := a.X.Type().Underlying().(type) {
		case *types.Slice:
			mod[v.elemArray(t.Elem())] = true
		case *types.Pointer:
			v.addrArrays2(a.X, mod, all)
		}
	default:
		pt, ok := addr.Type().Underlying().(*types.Pointer)
		if !ok {
			*all = true
			return
		}
		if st, ok := pt.Elem().Underlying().(*types.Struct); ok {
			for i := 0; i < st.NumFields(); i++ {
				v.fieldArraysRec(pt.Elem(), i, mod)
			}
		} else {
			mod[v.cellArray(pt.Elem())] = true
		}
	}
}

func (v *FV) fieldArraysRec(st types.Type, i int, mod map[string]bool) {
	u := st.Underlying().(*types.Struct)
	ft := u.Field(i).Type()
	if su, ok := ft.Underlying().(*types.Struct); ok {
		for j := 0; j < su.NumFields(); j++ {
			v.fieldArraysRec(ft, j, mod)
		}
		return
	}
	arr, _ := v.fieldArray(st, i)
	mod[arr] = true
}

func (v *FV) callMods(fr *Frame, cc *ssa.CallCommon, mod map[string]bool, all *bool, depth int, scanFn func(*ssa.Function, int, map[*ssa.BasicBlock]bool)) {
	if v.useClock {
		mod["CLOCK"] = true
	}
	if cc.IsInvoke() {
		mod["CALLS"] = true // ghost counter of interface method invocations
		mod["STAMP"] = true
		mod["RESNIL"] = true
	} else if isFuncValueCall(cc) {
		mod["CALLS"] = true
		mod["ARGNN"] = true
		mod["ARGV"] = true
		mod["STAMP"] = true
		mod["RESNIL"] = true
	}
	if b, ok := cc.Value.(*ssa.Builtin); ok {
		switch b.Name() {
		case "append":
			if len(cc.Args) > 0 {
				if sl, ok := cc.Args[0].Type().Underlying().(*types.Slice); ok {
					mod[v.elemArray(sl.Elem())+"$n"] = true
				}
			}
		case "copy":
			if len(cc.Args) > 0 {
				if sl, ok := cc.Args[0].Type().Underlying().(*types.Slice); ok {
					sfx := ""
					if staticNew(cc.Args[0], 0) {
						sfx = "$n"
					}
					mod[v.elemArray(sl.Elem())+sfx] = true
				}
			}
		case "delete":
			if m, ok := cc.Args[0].Type().Underlying().(*types.Map); ok {
				d, val := v.mapArrays(m)
				mod[d], mod[val], mod[v.mapLenArray()] = true, true, true
			}
		}
		return
	}
	con, callee := v.resolveCallee(fr, cc)
	if con != nil {
		if !con.HasMod {
			return
		}
		for _, m := range con.Modifies {
			if m == "*" {
				*all = true
				return
			}
			// location expression x.f.g -> arrays by field name suffix; resolved
			// conservatively by evaluating the array names through the callee signature
			names := v.modArrayNames(con, callee, cc, m)
			if names == nil {
				*all = true
				return
			}
			for _, n := range names {
				mod[n] = true
			}
		}
		return
	}
	if v.isNoEffect(cc, callee) {
		return
	}
	if callee != nil && callee.Blocks != nil && depth < 4 && v.inlinable(callee) {
		scanFn(callee, depth+1, nil)
		return
	}
	if lk := v.lockCall(cc); lk != "" {
		mod["LOCKED"] = true
		// lock acquisition havocs protected fields
		*all = *all || v.lockHasDecl(fr, cc)
		return
	}
	if os.Getenv("GOVC_DEBUG_MOD") != "" {
		fmt.Fprintln(os.Stderr, "modifiedIn: unknown effect of", v.calleeName(cc, callee))
	}
	*all = true
}

// ---------- executing a body

func (v *FV) execBody(fr *Frame, entry *State) []Exit {
	fn := fr.fn
	if fn.Blocks == nil {
		panic("no body: " + fn.String())
	}
	fr.loops = findLoops(fn)
	fr.loopOf = map[*ssa.BasicBlock]*loopInfo{}
	for _, l := range fr.loops {
		fr.loopOf[l.header] = l
	}
	order := rpo(fn)
	type outEdge struct {
		st   *State
		cond Term
	}
	outs := map[*ssa.BasicBlock]map[int]outEdge{} // block -> succ index -> state+cond
	var exits []Exit
	runBlock := func(b *ssa.BasicBlock, st *State) {
		// instructions
		terminated := false
		for _, instr := range b.Instrs {
			if _, ok := instr.(*ssa.Phi); ok {
				continue
			}
			switch in := instr.(type) {
			case *ssa.If:
				c := v.val(fr, in.Cond).T
				ct := v.define(fr.prefix+"c_"+fmt.Sprint(b.Index), "Bool", fmt.Sprintf("(and %s %s)", st.reach, c))
				cf := v.define(fr.prefix+"nc_"+fmt.Sprint(b.Index), "Bool", fmt.Sprintf("(and %s (not %s))", st.reach, c))
				outs[b] = map[int]outEdge{0: {st, ct}, 1: {st.clone(), cf}}
				terminated = true
			case *ssa.Jump:
				outs[b] = map[int]outEdge{0: {st, st.reach}}
				terminated = true
			case *ssa.Return:
				var res []TV
				for _, r := range in.Results {
					res = append(res, v.val(fr, r))
				}
				exits = append(exits, Exit{st: st, results: res})
				terminated = true
			case *ssa.Panic:
				v.doPanic(fr, st, in)
				exits = append(exits, Exit{st: st, panics: true})
				terminated = true
			default:
				v.curSt = st
				mayPanic := false
				if ci, ok := instr.(*ssa.Call); ok && v.quiet == 0 && len(st.defers) > 0 && v.callMayPanic(fr, ci.Common()) {
					mayPanic = true
				}
				v.execInstr(fr, st, instr)
				if mayPanic {
					// the callee panics at some point of its execution: start from its
					// effects (ghost call trace included), then anything may have happened
					if ex, ok := v.panicPath(fr, st.clone(), instr.(*ssa.Call)); ok {
						exits = append(exits, ex)
					}
				}
			}
			if terminated {
				break
			}
		}
	}
	if fr.con != nil && fr.con.Paths && len(fr.loops) == 0 && fr.isTop {
		// path mode: no merges at joins, every path through the (loop-free) body is executed on its own
		type item struct {
			b    *ssa.BasicBlock
			st   *State
			from *ssa.BasicBlock
		}
		work := []item{{fn.Blocks[0], entry, nil}}
		steps := 0
		for len(work) > 0 {
			it := work[len(work)-1]
			work = work[:len(work)-1]
			steps++
			if steps > 4000 {
				fail("path mode: too many paths in %s", fn.Name())
			}
			st := it.st
			if it.from != nil {
				pi := -1
				for i, p := range it.b.Preds {
					if p == it.from {
						pi = i
					}
				}
				for _, instr := range it.b.Instrs {
					phi, ok := instr.(*ssa.Phi)
					if !ok {
						break
					}
					tv := v.setVal(fr, phi, v.val(fr, phi.Edges[pi]).T)
					if phi.Comment != "" {
						st.env[phi.Comment] = tv
						delete(st.addr, phi.Comment)
					}
				}
			}
			delete(outs, it.b)
			runBlock(it.b, st)
			om := outs[it.b]
			for si := len(it.b.Succs) - 1; si >= 0; si-- {
				if oe, ok := om[si]; ok {
					ns := oe.st
					ns.reach = oe.cond
					work = append(work, item{it.b.Succs[si], ns, it.b})
				}
			}
		}
		return exits
	}
	for _, b := range order {
		var st *State
		li := fr.loopOf[b]
		if b == fn.Blocks[0] {
			st = entry
		} else {
			// collect incoming edges
			type inc struct {
				pred *ssa.BasicBlock
				st   *State
				cond Term
				idx  int
			}
			var ins []inc
			for pi, p := range b.Preds {
				if li != nil && li.body[p] && b.Dominates(p) {
					continue // back edge
				}
				om, ok := outs[p]
				if !ok {
					continue
				}
				for si, s := range p.Succs {
					if s == b {
						if oe, ok := om[si]; ok {
							ins = append(ins, inc{p, oe.st, oe.cond, pi})
						}
					}
				}
			}
			if len(ins) == 0 {
				continue // unreachable
			}
			// merged reach
			var conds []Term
			for _, in := range ins {
				conds = append(conds, in.cond)
			}
			st = &State{env: map[string]TV{}, addr: map[string]TV{}, held: map[string]string{}}
			if len(conds) == 1 {
				st.reach = conds[0]
			} else {
				st.reach = v.define(fr.prefix+"R_"+fmt.Sprint(b.Index), "Bool", "(or "+strings.Join(conds, " ")+")")
			}
			var cs []condSnap
			for _, in := range ins {
				cs = append(cs, condSnap{in.cond, in.st.snap})
			}
			st.snap = v.mergeSnaps(cs)
			// env: keep names on which all preds agree
			for name, tv := range ins[0].st.env {
				same := true
				for _, in := range ins[1:] {
					if o, ok := in.st.env[name]; !ok || o.T != tv.T {
						same = false
						break
					}
				}
				if same {
					st.env[name] = tv
				}
			}
			for name, tv := range ins[0].st.addr {
				same := true
				for _, in := range ins[1:] {
					if o, ok := in.st.addr[name]; !ok || o.T != tv.T {
						same = false
						break
					}
				}
				if same {
					st.addr[name] = tv
				}
			}
			st.recovered = true
			for _, in := range ins {
				st.panicking = st.panicking || in.st.panicking
				st.recovered = st.recovered && in.st.recovered
			}
			st.held = map[string]string{}
			for k, m := range ins[0].st.held {
				keep := true
				for _, in := range ins[1:] {
					if om, ok := in.st.held[k]; !ok {
						keep = false
					} else if om == "r" {
						m = "r"
					}
				}
				if keep {
					st.held[k] = m
				}
			}
			// defers: take the longest (conditions are recorded per defer)
			for _, in := range ins {
				if len(in.st.defers) > len(st.defers) {
					st.defers = append([]*deferRec(nil), in.st.defers...)
				}
			}
			// phis
			for _, instr := range b.Instrs {
				phi, ok := instr.(*ssa.Phi)
				if !ok {
					break
				}
				var terms []Term
				for _, in := range ins {
					terms = append(terms, v.val(fr, phi.Edges[in.idx]).T)
				}
				expr := terms[len(terms)-1]
				for i := len(terms) - 2; i >= 0; i-- {
					if terms[i] != expr {
						expr = fmt.Sprintf("(ite %s %s %s)", ins[i].cond, terms[i], expr)
					}
				}
				tv := v.setVal(fr, phi, expr)
				if phi.Comment != "" {
					st.env[phi.Comment] = tv
					delete(st.addr, phi.Comment)
				}
				// closures through phis are not tracked
			}
		}
		if li != nil {
			st = v.loopHeader(fr, li, st)
		}
		runBlock(b, st)
		// back edges leaving this block: check invariants
		if om, ok := outs[b]; ok {
			for si, s := range b.Succs {
				l2 := fr.loopOf[s]
				if l2 != nil && l2.body[b] && s.Dominates(b) {
					oe := om[si]
					v.loopBackEdge(fr, l2, b, oe.st, oe.cond)
					delete(om, si)
				}
			}
		}
	}
	return exits
}

// rangeSliceOf: for a range loop over a slice, the SSA value of that slice (the operand of the element
// access indexed by rangeindex+1), nil otherwise.
func rangeSliceOf(li *loopInfo) ssa.Value {
	var next ssa.Value
	for _, instr := range li.header.Instrs {
		if phi, ok := instr.(*ssa.Phi); ok && phi.Comment == "rangeindex" {
			for _, in2 := range li.header.Instrs {
				if b, ok := in2.(*ssa.BinOp); ok && b.Op == token.ADD && b.X == ssa.Value(phi) {
					next = b
				}
			}
		}
	}
	if next == nil {
		return nil
	}
	for blk := range li.body {
		for _, instr := range blk.Instrs {
			switch x := instr.(type) {
			case *ssa.IndexAddr:
				if x.Index == next {
					if _, ok := x.X.Type().Underlying().(*types.Slice); ok {
						return x.X
					}
				}
			case *ssa.Index:
				if x.Index == next {
					if _, ok := x.X.Type().Underlying().(*types.Slice); ok {
						return x.X
					}
				}
			}
		}
	}
	return nil
}

func (v *FV) exprEnv(fr *Frame, st *State, what string) *ExprEnv {
	vars := map[string]TV{}
	for k, x := range fr.params {
		vars[k] = x
		vars[k+"0"] = x // entry value of a parameter (parameters are assignable in Go)
	}
	if strings.HasPrefix(what, "loop ") {
		// inside the body a plain name means the current value of the variable
		for k, x := range st.env {
			if _, isParam := fr.params[k]; isParam {
				vars[k] = x
			}
		}
	}
	env := &ExprEnv{v: v, vars: vars, addr: st.addr, snap: st.snap, old: fr.oldSnap, reach: st.reach, what: what}
	if fr.fn.Pkg != nil {
		env.pkg = fr.fn.Pkg.Pkg
	}
	locals := st.env
	env.lookup = func(name string) (TV, bool) {
		tv, ok := locals[name]
		return tv, ok
	}
	return env
}

func (v *FV) loopHeader(fr *Frame, li *loopInfo, st *State) *State {
	var invs, decs []Clause
	if fr.con != nil {
		invs = fr.con.LoopInv[li.ordinal]
		decs = fr.con.LoopDec[li.ordinal]
	}
	pos := posStr(v.eng.fset, li.minPos)
	// `rangeslice`: the slice a `for .. range <slice expression>` loop iterates over (it has no name in the source)
	if rs := rangeSliceOf(li); rs != nil {
		if tv, ok := fr.vals[rs]; ok && tv.Sort == "Slice" {
			st.env["rangeslice"] = tv
		}
	}
	// entry check
	env := v.exprEnv(fr, st, fmt.Sprintf("loop %d invariant", li.ordinal))
	for i, c := range invs {
		t, err := env.EvalBool(c.Text)
		if err != nil {
			v.specError(c, err)
			continue
		}
		lbl := c.Name
		if lbl == "" {
			lbl = fmt.Sprintf("L%d.%d", li.ordinal, i+1)
		}
		v.oblige("inv.entry", lbl, pos, c.Text, st.reach, t)
	}
	// havoc
	mod := v.modifiedIn(fr, li.body)
	if mod != nil {
		v.regArray("TOP", "(Array Int Int)")
		mod["TOP"] = true
		if mod["CALLS"] {
			v.regArray("CALLS", fmt.Sprintf("(Array Int %s)", v.idx()))
		}
		if mod["ARGNN"] {
			v.regArray("ARGNN", "(Array Int Bool)")
		}
		if mod["ARGV"] {
			v.regArray("ARGV", fmt.Sprintf("(Array Int %s)", v.idx()))
		}
		if mod["STAMP"] {
			v.regArray("STAMP", fmt.Sprintf("(Array Int %s)", v.idx()))
		}
		if mod["RESNIL"] {
			v.regArray("RESNIL", "(Array Int Bool)")
		}
		if mod["LOCKED"] {
			v.regArray("LOCKED", "(Array Int Bool)")
		}
		if mod["CLOCK"] {
			v.regArray("CLOCK", fmt.Sprintf("(Array Int %s)", v.idx()))
		}
	}
	var frameLocs []string
	hasFrame := false
	if fr.con != nil && fr.con.LoopFrame != nil {
		frameLocs, hasFrame = fr.con.LoopFrame[li.ordinal]
	}
	if !hasFrame && fr.con != nil && fr.isTop && fr.con.HasMod {
		// default loop frame: the function's own modifies clause (checked like any invariant)
		all := false
		for _, m := range fr.con.Modifies {
			if m == "*" {
				all = true
			}
		}
		if !all {
			frameLocs, hasFrame = fr.con.Modifies, true
			if frameLocs == nil {
				frameLocs = []string{}
			}
		}
	}
	var frameArrs []string
	var frameAllowed map[string][]Term
	if hasFrame {
		if mod == nil {
			for a := range v.arrays {
				frameArrs = append(frameArrs, a)
			}
		} else {
			for a := range mod {
				frameArrs = append(frameArrs, a)
			}
		}
		sort.Strings(frameArrs)
		vars := map[string]TV{}
		for k, x := range fr.params {
			vars[k] = x
		}
		var pkg *types.Package
		if fr.fn.Pkg != nil {
			pkg = fr.fn.Pkg.Pkg
		}
		frameAllowed = v.allowedLocs(fr, st, frameLocs, fr.con, vars, pkg)
		v.oblige("inv.entry", fmt.Sprintf("L%d.frame", li.ordinal), pos, "loop frame: only "+strings.Join(frameLocs, ", ")+" changed since entry", st.reach, v.loopFrameTerm(fr, st, frameArrs, frameAllowed))
	}
	li.frameArrs, li.frameAllowed = frameArrs, frameAllowed
	ns := st.clone()
	e := v.newEpoch(2)
	e.parent = st.snap.clone()
	e.mod = mod
	ns.snap = &Snapshot{ep: e, over: map[string]Term{}}
	if mod == nil {
		// the loop body calls foreign code: everything is havocked except what it cannot reach
		v.preserveAcrossHavocIn(st.snap, ns.snap, li.body)
	} else {
		v.emit(fmt.Sprintf("(assert (>= %s %s))", v.topOf(ns.snap), v.topOf(st.snap)))
	}
	v.curSt = ns
	for _, instr := range li.header.Instrs {
		phi, ok := instr.(*ssa.Phi)
		if !ok {
			break
		}
		tv := v.freshVal(fr, phi, ns)
		if tv.Sort == "Slice" {
			// whatever slice the variable holds at the loop head, its backing array already exists
			v.regArray("TOP", "(Array Int Int)")
			v.assume(ns.reach, fmt.Sprintf("(< (sl_arr %s) %s)", tv.T, v.topOf(ns.snap)))
		} else if tv.Sort == "Int" && v.isRefType(phi.Type()) {
			v.regArray("TOP", "(Array Int Int)")
			v.assume(ns.reach, fmt.Sprintf("(< %s %s)", tv.T, v.topOf(ns.snap)))
		}
		if phi.Comment != "" {
			ns.env[phi.Comment] = tv
			delete(ns.addr, phi.Comment)
		}
		if phi.Comment == "rangeindex" {
			// the hidden index of range loop n is also reachable as rangeindex<n> (an inner range loop hides `rangeindex`)
			ns.env[fmt.Sprintf("rangeindex%d", li.ordinal)] = tv
		}
		if phi.Comment == "rangeindex" {
			// built-in invariant of slice range loops: the hidden index starts at -1 and only grows
			v.assume(ns.reach, fmt.Sprintf("(and (%s %s %s) (%s %s %s))", v.cmpOp(">=", true), tv.T, v.intLit(big.NewInt(-1), 64), v.cmpOp("<", true), tv.T, v.intLit(new(big.Int).Lsh(big.NewInt(1), 62), 64)))
		}
	}
	// variables assigned in the loop via memory (addr) stay addr; env entries for names
	// defined by non-phi values that are re-defined inside the loop are dropped
	for name := range ns.env {
		if v.redefinedInLoop(li, name) {
			isPhi := false
			for _, instr := range li.header.Instrs {
				if phi, ok := instr.(*ssa.Phi); ok && phi.Comment == name {
					isPhi = true
				}
			}
			if !isPhi {
				delete(ns.env, name)
			}
		}
	}
	env2 := v.exprEnv(fr, ns, fmt.Sprintf("loop %d invariant", li.ordinal))
	for _, c := range invs {
		t, err := env2.EvalBool(c.Text)
		if err != nil {
			v.specError(c, err)
			continue
		}
		v.assume(ns.reach, t)
	}
	if hasFrame {
		v.assume(ns.reach, v.loopFrameTerm(fr, ns, frameArrs, frameAllowed))
	}
	li.decAtHead = nil
	for _, c := range decs {
		tv, err := env2.EvalAny(c.Text)
		if err != nil {
			v.specError(c, err)
			continue
		}
		tv = env2.coerce(tv, types.Typ[types.Int], v.idx())
		li.decAtHead = append(li.decAtHead, tv)
	}
	li.headerState = ns
	return ns
}

func (v *FV) redefinedInLoop(li *loopInfo, name string) bool {
	for b := range li.body {
		for _, in := range b.Instrs {
			if d, ok := in.(*ssa.DebugRef); ok {
				if id, ok := d.Expr.(*ast.Ident); ok && id.Name == name {
					if _, isVar := d.Object().(*types.Var); isVar && !d.IsAddr {
						// a definition site: the ident position equals the object's or an assignment lhs;
						// conservatively treat any ref with a value defined in the loop as a redefinition
						if vi, ok := d.X.(ssa.Instruction); ok && vi.Block() != nil && li.body[vi.Block()] {
							return true
						}
					}
				}
			}
		}
	}
	return false
}

func (v *FV) loopBackEdge(fr *Frame, li *loopInfo, from *ssa.BasicBlock, st *State, cond Term) {
	var invs, decs []Clause
	if fr.con != nil {
		invs = fr.con.LoopInv[li.ordinal]
		decs = fr.con.LoopDec[li.ordinal]
	}
	pos := posStr(v.eng.fset, li.minPos)
	// phi values along this edge
	bs := st.clone()
	bs.reach = cond
	pi := -1
	for i, p := range li.header.Preds {
		if p == from {
			pi = i
		}
	}
	for _, instr := range li.header.Instrs {
		phi, ok := instr.(*ssa.Phi)
		if !ok {
			break
		}
		if phi.Comment != "" && pi >= 0 {
			bs.env[phi.Comment] = v.val(fr, phi.Edges[pi])
			delete(bs.addr, phi.Comment)
		}
	}
	env := v.exprEnv(fr, bs, fmt.Sprintf("loop %d invariant", li.ordinal))
	for i, c := range invs {
		t, err := env.EvalBool(c.Text)
		if err != nil {
			v.specError(c, err)
			continue
		}
		lbl := c.Name
		if lbl == "" {
			lbl = fmt.Sprintf("L%d.%d", li.ordinal, i+1)
		}
		v.oblige("inv.step", lbl, pos, c.Text, cond, t)
	}
	if li.frameArrs != nil {
		v.oblige("inv.step", fmt.Sprintf("L%d.frame", li.ordinal), pos, "loop frame preserved", cond, v.loopFrameTerm(fr, bs, li.frameArrs, li.frameAllowed))
	}
	for i, c := range decs {
		if i >= len(li.decAtHead) {
			break
		}
		tv, err := env.EvalAny(c.Text)
		if err != nil {
			v.specError(c, err)
			continue
		}
		tv = env.coerce(tv, types.Typ[types.Int], v.idx())
		h := li.decAtHead[i]
		goal := fmt.Sprintf("(and (%s %s %s) (%s %s %s))", v.cmpOp("<", true), tv.T, h.T, v.cmpOp(">=", true), h.T, v.idxLit(0))
		v.oblige("dec", fmt.Sprintf("L%d", li.ordinal), pos, c.Text, cond, goal)
	}
}

func (v *FV) specError(c Clause, err error) {
	msg := fmt.Sprintf("%s:%d: %v", strings.TrimPrefix(c.File, "/repo/"), c.Line, err)
	// a clause that cannot be translated is reported as a failed obligation (the contract
	// no longer binds to the code), never silently dropped
	v.oblige("spec", "", msg, c.Text, "true", "false")
	if v.quiet == 0 {
		v.obls[len(v.obls)-1].Text = c.Text + "  [spec error: " + err.Error() + "]"
	}
}

func (v *FV) doPanic(fr *Frame, st *State, in *ssa.Panic) {
	if fr.con != nil && fr.con.MayPanic {
		return
	}
	if v.con != nil && v.con.MayPanic {
		return
	}
	v.oblige("panic", "", posStr(v.eng.fset, in.Pos()), "explicit panic is unreachable", st.reach, "false")
}

// ---------- instructions

func (v *FV) execInstr(fr *Frame, st *State, instr ssa.Instruction) {
	defer func() {
		if r := recover(); r != nil {
			if ee, ok := r.(*exprError); ok {
				v.unsupportedInstr(fr, st, instr, ee.msg)
				return
			}
			panic(r)
		}
	}()
	switch in := instr.(type) {
	case *ssa.DebugRef:
		if id, ok := in.Expr.(*ast.Ident); ok {
			if _, isVar := in.Object().(*types.Var); isVar {
				if in.IsAddr {
					st.addr[id.Name] = v.val(fr, in.X)
					delete(st.env, id.Name)
				} else if cell, isCell := fr.cellVars[id.Name]; isCell {
					// a variable that lives in a heap cell (captured by a closure): contracts read
					// its current value through the cell
					st.addr[id.Name] = cell
					delete(st.env, id.Name)
				} else {
					st.env[id.Name] = v.val(fr, in.X)
					delete(st.addr, id.Name)
				}
			}
		}
	case *ssa.Alloc:
		pt := in.Type().Underlying().(*types.Pointer)
		ref := v.newRef(fr.prefix + in.Name())
		fr.vals[in] = TV{T: ref, Ty: in.Type(), Sort: "Int"}
		elem := pt.Elem()
		if _, ok := elem.Underlying().(*types.Struct); ok {
			v.storeStruct(st.snap, elem, ref, v.zero(elem))
		} else {
			if in.Heap && in.Comment != "" && in.Comment != "complit" && in.Comment != "slicelit" && in.Comment != "varargs" {
				if fr.cellVars == nil {
					fr.cellVars = map[string]TV{}
				}
				fr.cellVars[in.Comment] = fr.vals[in]
				st.addr[in.Comment] = fr.vals[in]
			}
			l := &Loc{kind: 2, arr: v.cellArray(elem), ref: ref, ty: elem}
			v.store(st, l, v.zero(elem))
			if cellIsPrivate(in) || cellIsFinal(in) {
				v.protectedCells = append(v.protectedCells, protectedCell{arr: l.arr, ref: ref, alloc: in, final: cellIsFinal(in)})
			}
		}
	case *ssa.FieldAddr:
		base := v.val(fr, in.X)
		stT := in.X.Type().Underlying().(*types.Pointer).Elem()
		v.oblige("nil", "", posStr(v.eng.fset, in.Pos()), "nil dereference", st.reach, fmt.Sprintf("(not (= %s 0))", base.T))
		// base may itself be a sub-object location
		if bl, ok := fr.locs[in.X]; ok && bl.kind == 4 {
			base.T = bl.ref
		}
		if bl, ok := fr.locs[in.X]; ok && (bl.kind == 3 || bl.kind == 5 || bl.kind == 6) {
			// pointer into a struct value held in a slice / array element
			u := stT.Underlying().(*types.Struct)
			ft := u.Field(in.Field).Type()
			fr.locs[in] = &Loc{kind: 6, inner: bl, st: stT, fi: in.Field, ty: ft}
			fn := "fldp_" + typeShort(stT) + "_" + mangle(u.Field(in.Field).Name())
			v.pre("fn "+fn, fmt.Sprintf("(declare-fun %s (Int) Int)", fn))
			v.pre("fnax "+fn, fmt.Sprintf("(assert (forall ((p Int)) (! (< (%s p) 0) :pattern ((%s p)))))", fn, fn))
			fr.vals[in] = TV{T: fmt.Sprintf("(%s %s)", fn, base.T), Ty: in.Type(), Sort: "Int"}
			v.notePtrLoc(fr.vals[in].T, fr.locs[in])
			break
		}
		u := stT.Underlying().(*types.Struct)
		ft := u.Field(in.Field).Type()
		if _, isS := ft.Underlying().(*types.Struct); isS {
			sub := v.subRef(stT, in.Field, base.T)
			fr.locs[in] = &Loc{kind: 4, ref: sub, ty: ft}
			fr.vals[in] = TV{T: sub, Ty: in.Type(), Sort: "Int"}
		} else {
			arr, _ := v.fieldArray(stT, in.Field)
			fr.locs[in] = &Loc{kind: 1, arr: arr, ref: base.T, ty: ft, st: stT, fi: in.Field}
			// opaque pointer value for a scalar field
			fn := "ptr_" + arr
			v.pre("fn "+fn, fmt.Sprintf("(declare-fun %s (Int) Int)", fn))
			fr.vals[in] = TV{T: fmt.Sprintf("(%s %s)", fn, base.T), Ty: in.Type(), Sort: "Int"}
		}
	case *ssa.IndexAddr:
		idx := v.toIdx(v.val(fr, in.Index))
		switch t := in.X.Type().Underlying().(type) {
		case *types.Slice:
			s := v.val(fr, in.X)
			v.oblige("bounds", "", posStr(v.eng.fset, in.Pos()), "index in range", st.reach, v.inRange(idx, fmt.Sprintf("(sl_len %s)", s.T)))
			fr.locs[in] = &Loc{kind: 3, arr: v.elemArray(t.Elem()), ref: fmt.Sprintf("(sl_arr %s)", s.T), idx: v.iadd(fmt.Sprintf("(sl_off %s)", s.T), idx), ty: t.Elem(), slice: s.T, pidx: idx, es: v.sortOf(t.Elem())}
			// the address of an element: never nil (the index is in range)
			v.pre("fn elp", fmt.Sprintf("(declare-fun elp (Int %s) Int)", v.idx()))
			v.pre("fnax elp", fmt.Sprintf("(assert (forall ((r Int) (i %s)) (! (< (elp r i) 0) :pattern ((elp r i)))))", v.idx()))
			fr.vals[in] = TV{T: fmt.Sprintf("(elp (sl_arr %s) %s)", s.T, v.iadd(fmt.Sprintf("(sl_off %s)", s.T), idx)), Ty: in.Type(), Sort: "Int"}
			v.notePtrLoc(fr.vals[in].T, fr.locs[in])
		case *types.Pointer:
			at := t.Elem().Underlying().(*types.Array)
			v.oblige("bounds", "", posStr(v.eng.fset, in.Pos()), "index in range", st.reach, v.inRange(idx, v.idxLit(at.Len())))
			inner := v.locOf(fr, st, in.X)
			fr.locs[in] = &Loc{kind: 5, inner: inner, idx: idx, ty: at.Elem()}
			fr.vals[in] = TV{T: "0", Ty: in.Type(), Sort: "Int"}
		default:
			fail("IndexAddr on %v", in.X.Type())
		}
	case *ssa.Index:
		idx := v.toIdx(v.val(fr, in.Index))
		x := v.val(fr, in.X)
		switch t := in.X.Type().Underlying().(type) {
		case *types.Array:
			v.oblige("bounds", "", posStr(v.eng.fset, in.Pos()), "index in range", st.reach, v.inRange(idx, v.idxLit(t.Len())))
			v.setVal(fr, in, fmt.Sprintf("(select %s %s)", x.T, idx))
		case *types.Basic: // string
			v.oblige("bounds", "", posStr(v.eng.fset, in.Pos()), "index in range", st.reach, v.inRange(idx, fmt.Sprintf("(str_len %s)", x.T)))
			v.pre("str_at", fmt.Sprintf("(declare-fun str_at (Str %s) %s)", v.idx(), v.sortOf(types.Typ[types.Uint8])))
			v.setVal(fr, in, fmt.Sprintf("(str_at %s %s)", x.T, idx))
		default:
			fail("Index on %v", in.X.Type())
		}
	case *ssa.UnOp:
		v.unop(fr, st, in)
	case *ssa.BinOp:
		v.binop(fr, st, in)
	case *ssa.Store:
		l := v.locOf(fr, st, in.Addr)
		if l == nil {
			fail("store through unknown pointer")
		}
		if l.kind == 2 || l.kind == 4 {
			v.oblige("nil", "", posStr(v.eng.fset, in.Pos()), "nil dereference", st.reach, fmt.Sprintf("(not (= %s 0))", l.ref))
		}
		if fa, ok := in.Addr.(*ssa.FieldAddr); ok {
			v.locksetField(fr, st, fa, "", true, posStr(v.eng.fset, in.Pos()))
		}
		v.store(st, l, v.val(fr, in.Val).T)
	case *ssa.Convert:
		v.convert(fr, st, in)
	case *ssa.ChangeType:
		x := v.val(fr, in.X)
		fr.vals[in] = TV{T: x.T, Ty: in.Type(), Sort: x.Sort}
		if ci, ok := fr.closures[in.X]; ok {
			fr.closures[in] = ci
		}
	case *ssa.ChangeInterface:
		x := v.val(fr, in.X)
		fr.vals[in] = TV{T: x.T, Ty: in.Type(), Sort: "Int"}
	case *ssa.MakeInterface:
		x := v.val(fr, in.X)
		var t Term
		if x.Sort == "Int" {
			t = x.T
		} else {
			fn := "box_" + mangle(x.Sort)
			v.pre("fn "+fn, fmt.Sprintf("(declare-fun %s (%s) Int)", fn, x.Sort))
			v.pre("fnu "+fn, fmt.Sprintf("(declare-fun un%s (Int) %s)", fn, x.Sort))
			v.pre("fnax "+fn, fmt.Sprintf("(assert (forall ((x %s)) (! (and (= (un%s (%s x)) x) (> (%s x) 0)) :pattern ((%s x)))))", x.Sort, fn, fn, fn, fn))
			t = fmt.Sprintf("(%s %s)", fn, x.T)
		}
		tv := v.setVal(fr, in, t)
		if _, isPtr := in.X.Type().Underlying().(*types.Pointer); !isPtr || true {
			v.assume(st.reach, fmt.Sprintf("(=> (not (= %s 0)) (= (dyn_type %s) %s))", tv.T, tv.T, v.typeID(in.X.Type())))
		}
	case *ssa.TypeAssert:
		v.typeAssert(fr, st, in)
	case *ssa.Extract:
		tup, ok := fr.tuples[in.Tuple]
		if !ok || in.Index >= len(tup) {
			v.freshVal(fr, in, st)
			return
		}
		fr.vals[in] = tup[in.Index]
		if ci, ok := fr.closures[in.Tuple]; ok {
			_ = ci
		}
	case *ssa.Field:
		x := v.val(fr, in.X)
		v.setVal(fr, in, fmt.Sprintf("(%s %s)", v.structSel(in.X.Type(), in.Field), x.T))
	case *ssa.Slice:
		v.sliceOp(fr, st, in)
	case *ssa.MakeSlice:
		ln := v.toIdx(v.val(fr, in.Len))
		cp := v.toIdx(v.val(fr, in.Cap))
		ref := v.newRef(fr.prefix + in.Name())
		sl := in.Type().Underlying().(*types.Slice)
		arr := v.elemArray(sl.Elem())
		v.wr(st.snap, arr, ref, v.constArray(v.idx(), v.sortOf(sl.Elem()), v.zero(sl.Elem())))
		v.oblige("bounds", "", posStr(v.eng.fset, in.Pos()), "makeslice: len out of range", st.reach, fmt.Sprintf("(and (%s %s %s) (%s %s %s))", v.cmpOp("<=", true), v.idxLit(0), ln, v.cmpOp("<=", true), ln, cp))
		v.setVal(fr, in, fmt.Sprintf("(mk_slice %s %s %s %s)", ref, v.idxLit(0), ln, cp))
	case *ssa.MakeMap:
		ref := v.newRef(fr.prefix + in.Name())
		m := in.Type().Underlying().(*types.Map)
		dom, _ := v.mapArrays(m)
		v.wr(st.snap, dom, ref, fmt.Sprintf("((as const (Array %s Bool)) false)", v.sortOf(m.Key())))
		ml := v.mapLenArray()
		v.wr(st.snap, ml, ref, v.idxLit(0))
		fr.vals[in] = TV{T: ref, Ty: in.Type(), Sort: "Int"}
	case *ssa.MapUpdate:
		m := in.Map.Type().Underlying().(*types.Map)
		ref := v.val(fr, in.Map).T
		k := v.val(fr, in.Key).T
		x := v.val(fr, in.Value).T
		dom, val := v.mapArrays(m)
		v.oblige("nil", "", posStr(v.eng.fset, in.Pos()), "assignment to entry in nil map", st.reach, fmt.Sprintf("(not (= %s 0))", ref))
		domA := v.define("mdom", fmt.Sprintf("(Array %s Bool)", v.sortOf(m.Key())), v.rd(st.snap, dom, ref))
		valA := v.rd(st.snap, val, ref)
		ml := v.mapLenArray()
		lenT := v.rd(st.snap, ml, ref)
		v.wr(st.snap, ml, ref, fmt.Sprintf("(ite (select %s %s) %s %s)", domA, k, lenT, v.iadd(lenT, v.idxLit(1))))
		v.wr(st.snap, dom, ref, fmt.Sprintf("(store %s %s true)", domA, k))
		v.wr(st.snap, val, ref, fmt.Sprintf("(store %s %s %s)", valA, k, x))
	case *ssa.Lookup:
		v.lookup(fr, st, in)
	case *ssa.Call:
		v.execCall(fr, st, in, in.Common())
	case *ssa.Defer:
		d := &deferRec{call: in.Common(), cond: st.reach, instr: in}
		for _, a := range in.Call.Args {
			d.args = append(d.args, v.val(fr, a))
		}
		if !in.Call.IsInvoke() {
			if _, isFn := in.Call.Value.(*ssa.Function); !isFn {
				if _, isB := in.Call.Value.(*ssa.Builtin); !isB {
					d.fnVal = v.val(fr, in.Call.Value)
				}
			}
		} else {
			d.fnVal = v.val(fr, in.Call.Value)
		}
		st.defers = append(st.defers, d)
	case *ssa.RunDefers:
		ds := st.defers
		st.defers = nil
		for i := len(ds) - 1; i >= 0; i-- {
			v.runDeferred(fr, st, ds[i])
		}
	case *ssa.MakeClosure:
		ci := &closureInfo{fn: in.Fn.(*ssa.Function)}
		for _, b := range in.Bindings {
			ci.bindings = append(ci.bindings, v.val(fr, b))
		}
		fr.closures[in] = ci
		ref := v.newRef(fr.prefix + in.Name())
		fr.vals[in] = TV{T: ref, Ty: in.Type(), Sort: "Int"}
	case *ssa.Go:
		v.note("goroutine start in %s: all heap state havocked", fnKey(fr.fn))
		v.havocAll(st.snap)
	case *ssa.Range:
		fr.vals[in] = TV{T: "0", Ty: in.Type(), Sort: "Int"}
		if m, ok := in.X.Type().Underlying().(*types.Map); ok {
			rv := v.rangeVisitedArray(m)
			ref := v.val(fr, in.X).T
			v.wr(st.snap, rv, ref, fmt.Sprintf("((as const (Array %s Bool)) false)", v.sortOf(m.Key())))
		}
	case *ssa.Next:
		v.rangeNext(fr, st, in)
	case *ssa.Send:
		v.note("channel send in %s: all heap state havocked", fnKey(fr.fn))
		v.havocAll(st.snap)
	case *ssa.Select:
		v.note("select in %s: all heap state havocked", fnKey(fr.fn))
		v.havocAll(st.snap)
		v.freshTuple(fr, st, in, in.Type())
	case *ssa.MakeChan:
		ref := v.newRef(fr.prefix + in.Name())
		fr.vals[in] = TV{T: ref, Ty: in.Type(), Sort: "Int"}
	case *ssa.SliceToArrayPointer, *ssa.MultiConvert:
		v.freshVal(fr, in.(ssa.Value), st)
	default:
		fail("unsupported instruction %T", instr)
	}
}

func (v *FV) unsupportedInstr(fr *Frame, st *State, instr ssa.Instruction, msg string) {
	pos := posStr(v.eng.fset, instr.Pos())
	v.note("unsupported at %s in %s: %s (%s) — value havocked", pos, fnKey(fr.fn), msg, instr.String())
	if val, ok := instr.(ssa.Value); ok {
		if _, isTup := val.Type().(*types.Tuple); isTup {
			v.freshTuple(fr, st, val, val.Type())
		} else {
			v.freshVal(fr, val, st)
		}
	}
	switch instr.(type) {
	case *ssa.Store, *ssa.Call, *ssa.MapUpdate:
		v.havocAll(st.snap)
	}
}

func (v *FV) freshTuple(fr *Frame, st *State, val ssa.Value, ty types.Type) {
	tup, ok := ty.(*types.Tuple)
	if !ok {
		v.freshVal(fr, val, st)
		return
	}
	var tvs []TV
	for i := 0; i < tup.Len(); i++ {
		et := tup.At(i).Type()
		s := v.sortOf(et)
		n := v.declare(fr.prefix+val.Name()+"_"+fmt.Sprint(i), s)
		v.assume(st.reach, v.typeFacts(n, et))
		tvs = append(tvs, TV{T: n, Ty: et, Sort: s})
	}
	fr.tuples[val] = tvs
	fr.vals[val] = TV{T: "0", Ty: ty, Sort: "Int"}
}

func (v *FV) toIdx(x TV) Term {
	if v.mode == ModeMath {
		return x.T
	}
	bits, signed, ok := intInfo(x.Ty)
	if !ok || bits == 64 {
		return x.T
	}
	if signed {
		return fmt.Sprintf("((_ sign_extend %d) %s)", 64-bits, x.T)
	}
	return fmt.Sprintf("((_ zero_extend %d) %s)", 64-bits, x.T)
}

func (v *FV) inRange(idx, ln Term) Term {
	return fmt.Sprintf("(and (%s %s %s) (%s %s %s))", v.cmpOp("<=", true), v.idxLit(0), idx, v.cmpOp("<", true), idx, ln)
}

func (v *FV) unop(fr *Frame, st *State, in *ssa.UnOp) {
	switch in.Op {
	case token.MUL:
		l := v.locOf(fr, st, in.X)
		if l == nil {
			fail("load through unknown pointer")
		}
		if l.kind == 2 || l.kind == 4 {
			v.oblige("nil", "", posStr(v.eng.fset, in.Pos()), "nil dereference", st.reach, fmt.Sprintf("(not (= %s 0))", l.ref))
		}
		if fa, ok := in.X.(*ssa.FieldAddr); ok {
			v.locksetField(fr, st, fa, "", false, posStr(v.eng.fset, in.Pos()))
		}
		tv := v.setVal(fr, in, v.load(st, l))
		if a, ok := in.X.(*ssa.Alloc); ok {
			// a local variable that only ever holds one closure: calls through it are calls of that closure
			if mc := singleClosureStore(a); mc != nil {
				if ci, ok := fr.closures[mc]; ok {
					fr.closures[in] = ci
				}
			}
		}
		if tv.Sort == "Int" && v.isRefType(in.Type()) {
			v.assume(st.reach, v.refOK(tv.T))
		} else {
			v.assume(st.reach, v.typeFacts(tv.T, in.Type()))
			if tv.Sort == "Slice" {
				// the backing array of a slice found in the heap exists
				v.assume(st.reach, fmt.Sprintf("(< (sl_arr %s) %s)", tv.T, v.topOf(st.snap)))
			}
		}
	case token.NOT:
		v.setVal(fr, in, fmt.Sprintf("(not %s)", v.val(fr, in.X).T))
	case token.SUB:
		x := v.val(fr, in.X)
		t := v.arith("neg", x, x)
		v.overflowCheck(fr, st, in, t)
		v.setVal(fr, in, t)
	case token.XOR:
		x := v.val(fr, in.X)
		if v.mode == ModeMath {
			_, signed, _ := intInfo(x.Ty)
			if signed {
				v.setVal(fr, in, fmt.Sprintf("(- (- %s) 1)", x.T))
				return
			}
			fail("^ on unsigned in math mode")
		}
		v.setVal(fr, in, fmt.Sprintf("(bvnot %s)", x.T))
	case token.ARROW:
		v.note("channel receive in %s: all heap state havocked", fnKey(fr.fn))
		v.havocAll(st.snap)
		if in.CommaOk {
			v.freshTuple(fr, st, in, in.Type())
		} else {
			v.freshVal(fr, in, st)
		}
	default:
		fail("unop %s", in.Op)
	}
}

func (v *FV) isRefType(t types.Type) bool {
	switch t.Underlying().(type) {
	case *types.Pointer, *types.Map, *types.Chan:
		return true
	}
	return false
}

func (v *FV) overflowCheck(fr *Frame, st *State, in ssa.Value, t Term) {
	if v.mode != ModeMath {
		return
	}
	if _, _, ok := intInfo(in.Type()); !ok {
		return
	}
	v.oblige("ovf", "", posStr(v.eng.fset, in.Pos()), "arithmetic result fits its Go type (math mode): "+in.String(), st.reach, v.rangeFact(t, in.Type()))
}

func (v *FV) binop(fr *Frame, st *State, in *ssa.BinOp) {
	x := v.val(fr, in.X)
	y := v.val(fr, in.Y)
	switch in.Op {
	case token.EQL, token.NEQ:
		if x.Sort != y.Sort {
			fail("== on different sorts %s %s", x.Sort, y.Sort)
		}
		t := fmt.Sprintf("(= %s %s)", x.T, y.T)
		if in.Op == token.NEQ {
			t = fmt.Sprintf("(not %s)", t)
		}
		v.setVal(fr, in, t)
	case token.LSS, token.LEQ, token.GTR, token.GEQ:
		v.setVal(fr, in, v.compare(in.Op, x, y))
	case token.SHL, token.SHR:
		if v.mode == ModeMath {
			// shifts by constants become multiplication / division
			if c, ok := in.Y.(*ssa.Const); ok {
				n, _ := constant.Uint64Val(constant.ToInt(c.Value))
				p := new(big.Int).Lsh(big.NewInt(1), uint(n)).String()
				if in.Op == token.SHL {
					t := fmt.Sprintf("(* %s %s)", x.T, p)
					v.overflowCheck(fr, st, in, t)
					v.setVal(fr, in, t)
				} else {
					v.setVal(fr, in, fmt.Sprintf("(div %s %s)", x.T, p))
				}
				return
			}
			fail("variable shift in math mode")
		}
		v.setVal(fr, in, v.shift(in.Op, x, y))
	case token.ADD:
		if x.Sort == "Str" {
			tv := v.setVal(fr, in, fmt.Sprintf("(str_cat %s %s)", x.T, y.T))
			v.assume(st.reach, fmt.Sprintf("(= (str_len %s) %s)", tv.T, v.iadd(fmt.Sprintf("(str_len %s)", x.T), fmt.Sprintf("(str_len %s)", y.T))))
			return
		}
		t := v.arith("+", x, y)
		v.overflowCheck(fr, st, in, t)
		v.setVal(fr, in, t)
	case token.SUB, token.MUL:
		op := map[token.Token]string{token.SUB: "-", token.MUL: "*"}[in.Op]
		t := v.arith(op, x, y)
		v.overflowCheck(fr, st, in, t)
		v.setVal(fr, in, t)
	case token.QUO, token.REM:
		if !isFloat(x.Ty) {
			zero := v.zero(in.Y.Type())
			v.oblige("div0", "", posStr(v.eng.fset, in.Pos()), "division by zero", st.reach, fmt.Sprintf("(not (= %s %s))", y.T, zero))
		}
		op := "/"
		if in.Op == token.REM {
			op = "%"
		}
		t := v.arith(op, x, y)
		if v.mode == ModeMath && !isFloat(x.Ty) {
			if _, isConst := in.Y.(*ssa.Const); !isConst {
				// division by a variable: give the solver the defining (bilinear) facts
				q := v.mathDiv(x.T, y.T)
				r := fmt.Sprintf("(- %s (* %s %s))", x.T, y.T, q)
				v.assume(st.reach, fmt.Sprintf("(=> (> %s 0) (and (=> (>= %s 0) (and (<= 0 %s) (< %s %s) (>= %s 0) (<= %s %s))) (=> (< %s 0) (and (>= 0 %s) (> %s (- %s)) (<= %s 0) (>= %s %s)))))", y.T, x.T, r, r, y.T, q, q, x.T, x.T, r, r, y.T, q, q, x.T))
			}
		}
		if in.Op == token.QUO {
			v.overflowCheck(fr, st, in, t)
		}
		v.setVal(fr, in, t)
	case token.AND, token.OR, token.XOR, token.AND_NOT:
		if x.Sort == "Bool" {
			op := map[token.Token]string{token.AND: "and", token.OR: "or", token.XOR: "xor"}[in.Op]
			v.setVal(fr, in, fmt.Sprintf("(%s %s %s)", op, x.T, y.T))
			return
		}
		op := map[token.Token]string{token.AND: "&", token.OR: "|", token.XOR: "^", token.AND_NOT: "&^"}[in.Op]
		v.setVal(fr, in, v.arith(op, x, y))
	default:
		fail("binop %s", in.Op)
	}
}

func (v *FV) convert(fr *Frame, st *State, in *ssa.Convert) {
	x := v.val(fr, in.X)
	from, to := in.X.Type(), in.Type()
	_, _, fi := intInfo(from)
	tb, ts, ti := intInfo(to)
	switch {
	case fi && ti:
		if v.mode == ModeMath {
			// exactness is an obligation: Go wraps silently, the math model does not
			lo, hi := intRange(tb, ts)
			v.oblige("conv", "", posStr(v.eng.fset, in.Pos()), "integer conversion is exact (math mode): "+in.String(), st.reach,
				fmt.Sprintf("(and (<= %s %s) (<= %s %s))", v.intLit(lo, tb), x.T, x.T, v.intLit(hi, tb)))
			v.setVal(fr, in, x.T)
			return
		}
		v.setVal(fr, in, v.convInt(x, to))
	case fi && isFloat(to):
		fn := "i2f_" + mangle(x.Sort)
		v.sortOf(to)
		v.pre("fn "+fn, fmt.Sprintf("(declare-fun %s (%s) F64)", fn, x.Sort))
		v.setVal(fr, in, fmt.Sprintf("(%s %s)", fn, x.T))
	case isFloat(from) && ti:
		s := v.sortOf(to)
		fn := "f2i_" + mangle(s)
		v.pre("fn "+fn, fmt.Sprintf("(declare-fun %s (F64) %s)", fn, s))
		tv := v.setVal(fr, in, fmt.Sprintf("(%s %s)", fn, x.T))
		v.assume(st.reach, v.rangeFact(tv.T, to))
	case isFloat(from) && isFloat(to):
		v.setVal(fr, in, x.T)
	case isString(to) || isString(from):
		// string <-> []byte / []rune / integer: fresh value with equal length where it applies
		if isString(to) && x.Sort == "Slice" {
			if sl, ok := from.Underlying().(*types.Slice); ok {
				if b, ok := sl.Elem().Underlying().(*types.Basic); ok && b.Kind() == types.Uint8 {
					// string(b): determined by the slice header and the contents of its backing array
					x.Ty = from
					tv := v.setVal(fr, in, v.bytesToStr(st.snap, x))
					v.assume(st.reach, fmt.Sprintf("(= (str_len %s) (sl_len %s))", tv.T, x.T))
					return
				}
			}
		}
		tv := v.freshVal(fr, in, st)
		if isString(to) && x.Sort == "Slice" {
			v.assume(st.reach, fmt.Sprintf("(= (str_len %s) (sl_len %s))", tv.T, x.T))
		} else if isString(from) && tv.Sort == "Slice" {
			if sl, ok := to.Underlying().(*types.Slice); ok {
				if b, ok := sl.Elem().Underlying().(*types.Basic); ok && b.Kind() == types.Uint8 {
					v.assume(st.reach, fmt.Sprintf("(and (= (sl_len %s) (str_len %s)) (> (sl_arr %s) %s))", tv.T, x.T, tv.T, v.n0))
				}
			}
		}
	default:
		if v.sortOf(to) == x.Sort {
			fr.vals[in] = TV{T: x.T, Ty: to, Sort: x.Sort}
			return
		}
		fail("convert %v -> %v", from, to)
	}
}

// bytesToStr: the string value of a []byte in heap s (an uninterpreted function of the slice header
// and of the contents of the backing array: equal inputs give equal strings, nothing else is known).
func (v *FV) bytesToStr(s *Snapshot, x TV) Term {
	sl := x.Ty.Underlying().(*types.Slice)
	arr := v.elemArray(sl.Elem())
	es := v.sortOf(sl.Elem())
	v.sortOf(types.Typ[types.String])
	v.pre("fn b2s", fmt.Sprintf("(declare-fun b2s (Slice (Array %s %s)) Str)", v.idx(), es))
	return fmt.Sprintf("(b2s %s %s)", x.T, v.rd(s, arr, v.arrOf(x.T)))
}

func (v *FV) typeAssert(fr *Frame, st *State, in *ssa.TypeAssert) {
	x := v.val(fr, in.X)
	target := in.AssertedType
	s := v.sortOf(target)
	var okT, valT Term
	if _, isIface := target.Underlying().(*types.Interface); isIface {
		okT = v.declare(fr.prefix+in.Name()+"_ok", "Bool")
		v.assume(st.reach, fmt.Sprintf("(=> %s (not (= %s 0)))", okT, x.T))
		valT = x.T
	} else {
		okT = fmt.Sprintf("(and (not (= %s 0)) (= (dyn_type %s) %s))", x.T, x.T, v.typeID(target))
		if s == "Int" {
			valT = x.T
		} else {
			fn := "box_" + mangle(s)
			v.pre("fn "+fn, fmt.Sprintf("(declare-fun %s (%s) Int)", fn, s))
			v.pre("fnu "+fn, fmt.Sprintf("(declare-fun un%s (Int) %s)", fn, s))
			v.pre("fnax "+fn, fmt.Sprintf("(assert (forall ((x %s)) (! (and (= (un%s (%s x)) x) (> (%s x) 0)) :pattern ((%s x)))))", s, fn, fn, fn, fn))
			valT = fmt.Sprintf("(un%s %s)", fn, x.T)
		}
	}
	if in.CommaOk {
		okN := v.define(fr.prefix+in.Name()+"_ok", "Bool", okT)
		valN := v.define(fr.prefix+in.Name()+"_v", s, fmt.Sprintf("(ite %s %s %s)", okN, valT, v.zero(target)))
		fr.tuples[in] = []TV{{T: valN, Ty: target, Sort: s}, {T: okN, Ty: types.Typ[types.Bool], Sort: "Bool"}}
		fr.vals[in] = TV{T: "0", Ty: in.Type(), Sort: "Int"}
		return
	}
	v.oblige("typeassert", "", posStr(v.eng.fset, in.Pos()), "type assertion holds", st.reach, okT)
	v.setVal(fr, in, valT)
}

func (v *FV) sliceOp(fr *Frame, st *State, in *ssa.Slice) {
	x := v.val(fr, in.X)
	pos := posStr(v.eng.fset, in.Pos())
	le := v.cmpOp("<=", true)
	switch t := in.X.Type().Underlying().(type) {
	case *types.Slice:
		lo := v.idxLit(0)
		if in.Low != nil {
			lo = v.toIdx(v.val(fr, in.Low))
		}
		hi := fmt.Sprintf("(sl_len %s)", x.T)
		if in.High != nil {
			hi = v.toIdx(v.val(fr, in.High))
		}
		cp := fmt.Sprintf("(sl_cap %s)", x.T)
		mx := cp
		if in.Max != nil {
			mx = v.toIdx(v.val(fr, in.Max))
		}
		v.oblige("bounds", "", pos, "slice bounds in range", st.reach, fmt.Sprintf("(and (%s %s %s) (%s %s %s) (%s %s %s) (%s %s %s))", le, v.idxLit(0), lo, le, lo, hi, le, hi, mx, le, mx, cp))
		v.setVal(fr, in, fmt.Sprintf("(mk_slice (sl_arr %s) %s %s %s)", x.T, v.iadd(fmt.Sprintf("(sl_off %s)", x.T), lo), v.isub(hi, lo), v.isub(mx, lo)))
	case *types.Basic: // string
		lo := v.idxLit(0)
		if in.Low != nil {
			lo = v.toIdx(v.val(fr, in.Low))
		}
		hi := fmt.Sprintf("(str_len %s)", x.T)
		if in.High != nil {
			hi = v.toIdx(v.val(fr, in.High))
		}
		v.oblige("bounds", "", pos, "slice bounds in range", st.reach, fmt.Sprintf("(and (%s %s %s) (%s %s %s) (%s %s (str_len %s)))", le, v.idxLit(0), lo, le, lo, hi, le, hi, x.T))
		v.pre("str_sub", fmt.Sprintf("(declare-fun str_sub (Str %s %s) Str)", v.idx(), v.idx()))
		tv := v.setVal(fr, in, fmt.Sprintf("(str_sub %s %s %s)", x.T, lo, hi))
		v.assume(st.reach, fmt.Sprintf("(= (str_len %s) %s)", tv.T, v.isub(hi, lo)))
	case *types.Pointer: // pointer to array
		at := t.Elem().Underlying().(*types.Array)
		// contents of an array in a cell are not shared with the resulting slice in this
		// model: fresh backing store with equal contents
		lo := v.idxLit(0)
		if in.Low != nil {
			lo = v.toIdx(v.val(fr, in.Low))
		}
		hi := v.idxLit(at.Len())
		if in.High != nil {
			hi = v.toIdx(v.val(fr, in.High))
		}
		v.oblige("bounds", "", pos, "slice bounds in range", st.reach, fmt.Sprintf("(and (%s %s %s) (%s %s %s) (%s %s %s))", le, v.idxLit(0), lo, le, lo, hi, le, hi, v.idxLit(at.Len())))
		arr := v.elemArray(at.Elem())
		l := v.locOf(fr, st, in.X)
		if l != nil && l.kind == 2 && l.arr == arr {
			// an array variable: the slice shares its backing store
			v.setVal(fr, in, fmt.Sprintf("(mk_slice %s %s %s %s)", l.ref, lo, v.isub(hi, lo), v.isub(v.idxLit(at.Len()), lo)))
			return
		}
		ref := v.newRef(fr.prefix + in.Name())
		v.wr(st.snap, arr, ref, v.load(st, l))
		v.note("slice of array pointer at %s: backing store copied (aliasing with the array not modelled)", pos)
		v.setVal(fr, in, fmt.Sprintf("(mk_slice %s %s %s %s)", ref, lo, v.isub(hi, lo), v.isub(v.idxLit(at.Len()), lo)))
	default:
		fail("slice of %v", in.X.Type())
	}
}

func (v *FV) lookup(fr *Frame, st *State, in *ssa.Lookup) {
	x := v.val(fr, in.X)
	if m, ok := in.X.Type().Underlying().(*types.Map); ok {
		k := v.val(fr, in.Index).T
		dom, val := v.mapArrays(m)
		has := fmt.Sprintf("(and (not (= %s 0)) (select %s %s))", x.T, v.rd(st.snap, dom, x.T), k)
		es := v.sortOf(m.Elem())
		valT := fmt.Sprintf("(ite %s (select %s %s) %s)", has, v.rd(st.snap, val, x.T), k, v.zero(m.Elem()))
		if in.CommaOk {
			okN := v.define(fr.prefix+in.Name()+"_ok", "Bool", has)
			valN := v.define(fr.prefix+in.Name()+"_v", es, valT)
			if es == "Int" && v.isRefType(m.Elem()) {
				v.assume(st.reach, v.refOK(valN))
			}
			fr.tuples[in] = []TV{{T: valN, Ty: m.Elem(), Sort: es}, {T: okN, Ty: types.Typ[types.Bool], Sort: "Bool"}}
			fr.vals[in] = TV{T: "0", Ty: in.Type(), Sort: "Int"}
			return
		}
		tv := v.setVal(fr, in, valT)
		if es == "Int" && v.isRefType(m.Elem()) {
			v.assume(st.reach, v.refOK(tv.T))
		}
		return
	}
	// string index
	idx := v.toIdx(v.val(fr, in.Index))
	v.oblige("bounds", "", posStr(v.eng.fset, in.Pos()), "index in range", st.reach, v.inRange(idx, fmt.Sprintf("(str_len %s)", x.T)))
	v.pre("str_at", fmt.Sprintf("(declare-fun str_at (Str %s) %s)", v.idx(), v.sortOf(types.Typ[types.Uint8])))
	v.setVal(fr, in, fmt.Sprintf("(str_at %s %s)", x.T, idx))
}

// rangeNext: map / string iteration yields an arbitrary element; loop invariants carry
// whatever must be known.
func (v *FV) rangeNext(fr *Frame, st *State, in *ssa.Next) {
	tup := in.Type().(*types.Tuple)
	var tvs []TV
	var mapT *types.Map
	if rg, ok := in.Iter.(*ssa.Range); ok {
		mapT, _ = rg.X.Type().Underlying().(*types.Map)
	}
	for i := 0; i < tup.Len(); i++ {
		et := tup.At(i).Type()
		if mapT != nil && i == 1 {
			et = mapT.Key() // unused components are typed invalid by go/ssa
		} else if mapT != nil && i == 2 {
			et = mapT.Elem()
		}
		s := v.sortOf(et)
		n := v.declare(fr.prefix+in.Name()+"_"+fmt.Sprint(i), s)
		v.assume(st.reach, v.typeFacts(n, et))
		tvs = append(tvs, TV{T: n, Ty: et, Sort: s})
	}
	// for maps: ok => key present, value = map[key]
	if rg, ok := in.Iter.(*ssa.Range); ok {
		if m, ok := rg.X.Type().Underlying().(*types.Map); ok && len(tvs) == 3 {
			ref := v.val(fr, rg.X).T
			dom, val := v.mapArrays(m)
			rv := v.rangeVisitedArray(m)
			domA := v.define("rdom", fmt.Sprintf("(Array %s Bool)", v.sortOf(m.Key())), v.rd(st.snap, dom, ref))
			visA := v.define("rvis", fmt.Sprintf("(Array %s Bool)", v.sortOf(m.Key())), v.rd(st.snap, rv, ref))
			facts := []string{fmt.Sprintf("(select %s %s)", domA, tvs[1].T), fmt.Sprintf("(not (select %s %s))", visA, tvs[1].T)}
			// exhausted: every key of the map has been visited
			ks := v.sortOf(m.Key())
			v.assume(st.reach, fmt.Sprintf("(=> (not %s) (forall ((k %s)) (! (=> (select %s k) (select %s k)) :pattern ((select %s k)))))", tvs[0].T, ks, domA, visA, domA))
			v.wr(st.snap, rv, ref, fmt.Sprintf("(ite %s (store %s %s true) %s)", tvs[0].T, visA, tvs[1].T, visA))
			if tvs[2].Sort == v.sortOf(m.Elem()) {
				facts = append(facts, fmt.Sprintf("(= %s (select %s %s))", tvs[2].T, v.rd(st.snap, val, ref), tvs[1].T))
			}
			v.assume(st.reach, fmt.Sprintf("(=> %s (and (not (= %s 0)) %s))", tvs[0].T, ref, strings.Join(facts, " ")))
			if tvs[2].Sort == "Int" && v.isRefType(m.Elem()) {
				v.assume(st.reach, v.refOK(tvs[2].T))
			}
		}
	}
	fr.tuples[in] = tvs
	fr.vals[in] = TV{T: "0", Ty: in.Type(), Sort: "Int"}
}

func (v *FV) rangeVisitedArray(m *types.Map) string {
	ks := v.sortOf(m.Key())
	name := "RV_" + mangle(ks)
	v.regArray(name, fmt.Sprintf("(Array Int (Array %s Bool))", ks))
	return name
}

// ---------- lockset: protected locations are only accessed with their lock held

// fieldPathOf resolves v to (owner value, owner struct type, "f" or "f.g") when v is a
// FieldAddr chain, possibly through one load of a pointer field.
func fieldPathOf(x ssa.Value) (ssa.Value, types.Type, string) {
	switch a := x.(type) {
	case *ssa.FieldAddr:
		st := a.X.Type().Underlying().(*types.Pointer).Elem()
		name := st.Underlying().(*types.Struct).Field(a.Field).Name()
		if o, ot, p := fieldPathOf(a.X); o != nil {
			return o, ot, p + "." + name
		}
		return a.X, st, name
	case *ssa.UnOp:
		if a.Op == token.MUL {
			return fieldPathOf(a.X)
		}
	}
	return nil, nil, ""
}

func (v *FV) locksetField(fr *Frame, st *State, fa *ssa.FieldAddr, suffix string, write bool, pos string) {
	owner, ot, path := fieldPathOf(fa)
	if owner == nil {
		return
	}
	v.locksetCheck(fr, st, owner, ot, path+suffix, write, pos)
}

func (v *FV) locksetCheck(fr *Frame, st *State, owner ssa.Value, ot types.Type, path string, write bool, pos string) {
	if v.con != nil && v.con.Unshared {
		return
	}
	tk := typeKey(ot)
	for key, ld := range v.eng.db.Locks {
		if ld.Owner != tk {
			continue
		}
		prot := false
		for _, p := range ld.Protects {
			if p == path {
				prot = true
			}
		}
		if !prot {
			continue
		}
		ownerT := v.canonOwner(fr, owner)
		mode, held := st.held[key+"@"+ownerT]
		ok := held
		if write && mode == "r" {
			ok = false
			for _, rw := range ld.RWrites {
				if rw == path {
					ok = true
					v.note("lock %s: %s is written under the read lock (declared rwrites): concurrent writers of this location are not excluded", ld.Field, path)
				}
			}
		}
		what := "read"
		if write {
			what = "write"
		}
		goal := "true"
		if !ok {
			goal = "false"
		}
		if v.quiet == 0 && !ok {
			v.oblige("lockset", mangle(path), pos, fmt.Sprintf("%s of %s.%s requires lock %s held%s", what, shortKey(tk), path, ld.Field, map[bool]string{true: " exclusively", false: ""}[write]), st.reach, goal)
		} else if v.quiet == 0 {
			v.locksetOK++
		}
	}
}

// constArray: an array that is zero everywhere. (as const ..) needs a value literal in
// cvc5, so for symbolic zero values a fresh array with a defining axiom is used.
func (v *FV) constArray(ksort, esort string, zero Term) Term {
	if esort == "Bool" || esort == "Int" || strings.HasPrefix(esort, "(_ BitVec") {
		return fmt.Sprintf("((as const (Array %s %s)) %s)", ksort, esort, zero)
	}
	a := v.declare("zeroarr", fmt.Sprintf("(Array %s %s)", ksort, esort))
	v.emit(fmt.Sprintf("(assert (forall ((i %s)) (! (= (select %s i) %s) :pattern ((select %s i)))))", ksort, a, zero, a))
	return a
}

// callMayPanic: calls through unknown function values (client code) and callees whose
// contract says may_panic can panic; this matters only where a deferred recover exists.
func (v *FV) callMayPanic(fr *Frame, cc *ssa.CallCommon) bool {
	if fr.fn.Recover == nil {
		return false
	}
	con, callee := v.resolveCallee(fr, cc)
	if con != nil {
		if !con.MayPanic && v.con != nil && fr.isTop {
			// "panics <callee>": this verification (usually a second, thin contract about the recovered path) treats the
			// matching callee as one that may panic although its contract does not say so for everybody
			for _, pn := range v.con.PanicsOf {
				if strings.Contains(con.Key, pn) {
					return true
				}
			}
		}
		return con.MayPanic
	}
	if callee == nil && !cc.IsInvoke() {
		if _, isB := cc.Value.(*ssa.Builtin); !isB {
			return true
		}
	}
	if callee != nil && v.inlinable(callee) {
		// an inlined callee that itself calls unknown function values
		for _, b := range callee.Blocks {
			for _, in := range b.Instrs {
				if ci, ok := in.(ssa.CallInstruction); ok {
					if _, isFn := ci.Common().Value.(*ssa.Function); !isFn && !ci.Common().IsInvoke() {
						if _, isB := ci.Common().Value.(*ssa.Builtin); !isB {
							return true
						}
					}
				}
			}
		}
	}
	return false
}

// panicPath: the call panicked: its effects are arbitrary, the deferred calls run with
// recover() != nil; if one of them recovers the function returns its named results.
func (v *FV) panicPath(fr *Frame, st *State, call *ssa.Call) (Exit, bool) {
	pos := posStr(v.eng.fset, call.Pos())
	cc := call.Common()
	// the panicking callee counts as called (ghost trace) and may have done anything before
	v.regArray("CALLS", fmt.Sprintf("(Array Int %s)", v.idx()))
	v.regArray("ARGNN", "(Array Int Bool)")
	_ = cc
	v.havocAll(st.snap)
	st.panicking = true
	st.recovered = false
	ds := st.defers
	st.defers = nil
	for i := len(ds) - 1; i >= 0; i-- {
		v.runDeferred(fr, st, ds[i])
	}
	if !st.recovered {
		if !(v.con != nil && v.con.MayPanic) {
			v.oblige("panic", "propagates", pos, "a panic of the callee propagates out of this function", st.reach, "false")
		}
		return Exit{st: st, panics: true}, true
	}
	// recovered: results are the current values of the named result cells (or zero)
	var res []TV
	rb := fr.fn.Recover
	if rb != nil {
		for _, in := range rb.Instrs {
			if ret, ok := in.(*ssa.Return); ok {
				for _, r := range ret.Results {
					if u, ok := r.(*ssa.UnOp); ok {
						if l := v.locOf(fr, st, u.X); l != nil {
							t := v.load(st, l)
							res = append(res, TV{T: t, Ty: u.Type(), Sort: v.sortOf(u.Type())})
							continue
						}
					}
					res = append(res, v.val(fr, r))
				}
			}
		}
	}
	return Exit{st: st, results: res, recovered: true}, true
}

// cellIsPrivate: the address of this local variable is only stored to / loaded from here
// or captured by closures that are only called or deferred in this function, so code
// outside cannot change it.
func cellIsPrivate(a *ssa.Alloc) bool {
	refs := a.Referrers()
	if refs == nil {
		return false
	}
	for _, r := range *refs {
		switch r := r.(type) {
		case *ssa.Store:
			if r.Val == a {
				return false
			}
		case *ssa.UnOp, *ssa.DebugRef:
		case *ssa.MakeClosure:
			crefs := r.Referrers()
			if crefs == nil {
				return false
			}
			for _, cr := range *crefs {
				switch cr := cr.(type) {
				case *ssa.Defer:
					if cr.Call.Value != r {
						return false
					}
				case *ssa.Call:
					if cr.Call.Value != r {
						return false
					}
				case *ssa.DebugRef:
				default:
					return false
				}
			}
		default:
			return false
		}
	}
	return true
}

func singleClosureStore(a *ssa.Alloc) *ssa.MakeClosure {
	refs := a.Referrers()
	if refs == nil {
		return nil
	}
	var mc *ssa.MakeClosure
	n := 0
	for _, r := range *refs {
		if st, ok := r.(*ssa.Store); ok && st.Addr == a {
			n++
			mc, _ = st.Val.(*ssa.MakeClosure)
		}
	}
	if n == 1 {
		return mc
	}
	return nil
}

// cellIsFinal: the variable is assigned exactly once (here) and no closure capturing it
// assigns it: its value never changes, whoever runs those closures.
func cellIsFinal(a *ssa.Alloc) bool {
	refs := a.Referrers()
	if refs == nil {
		return false
	}
	stores := 0
	for _, r := range *refs {
		switch r := r.(type) {
		case *ssa.Store:
			if r.Addr != a {
				return false
			}
			stores++
		case *ssa.UnOp, *ssa.DebugRef:
		case *ssa.MakeClosure:
			fn, ok := r.Fn.(*ssa.Function)
			if !ok {
				return false
			}
			for i, b := range r.Bindings {
				if b == a && !freeVarReadOnly(fn, i, 0) {
					return false
				}
			}
		default:
			return false
		}
	}
	return stores <= 1
}

func freeVarReadOnly(fn *ssa.Function, idx, depth int) bool {
	if depth > 4 || idx >= len(fn.FreeVars) {
		return false
	}
	fv := fn.FreeVars[idx]
	refs := fv.Referrers()
	if refs == nil {
		return true
	}
	for _, r := range *refs {
		switch r := r.(type) {
		case *ssa.UnOp, *ssa.DebugRef:
		case *ssa.MakeClosure:
			inner, ok := r.Fn.(*ssa.Function)
			if !ok {
				return false
			}
			for i, b := range r.Bindings {
				if b == fv && !freeVarReadOnly(inner, i, depth+1) {
					return false
				}
			}
		default:
			return false
		}
	}
	return true
}


func (v *FV) notePtrLoc(t Term, l *Loc) {
	if v.ptrLocs == nil {
		v.ptrLocs = map[Term]*Loc{}
	}
	v.ptrLocs[t] = l
}
