package main

import (
	"bytes"
	"context"
	"fmt"
	"os/exec"
	"strings"
	"sync"
	"time"
)

type SolverResult struct {
	Status  string // unsat, sat, unknown, timeout, error
	Solver  string
	Time    float64
	Output  string // full output of winning solver (model on sat)
	Details map[string]string
}

type solverDef struct {
	name string
	cmd  func(timeoutS int) []string
	pre  string
}

var solverDefs = []solverDef{
	{"z3-new-5.1.0", func(t int) []string { return []string{"z3-new", "-in", fmt.Sprintf("-T:%d", t)} }, ""},
	{"z3-4.8.12", func(t int) []string { return []string{"z3", "-in", fmt.Sprintf("-T:%d", t)} }, ""},
	{"cvc5-1.0", func(t int) []string {
		return []string{"cvc5", "--lang=smt2", "--produce-models", fmt.Sprintf("--tlimit=%d", t*1000)}
	}, ""},
}

var solverSem = make(chan struct{}, 40)

func runOne(ctx context.Context, sd solverDef, script string, timeoutS int) SolverResult {
	solverSem <- struct{}{}
	defer func() { <-solverSem }()
	start := time.Now()
	args := sd.cmd(timeoutS)
	cctx, cancel := context.WithTimeout(ctx, time.Duration(timeoutS+2)*time.Second)
	defer cancel()
	cmd := exec.CommandContext(cctx, args[0], args[1:]...)
	cmd.Stdin = strings.NewReader(script)
	var out bytes.Buffer
	cmd.Stdout = &out
	cmd.Stderr = &out
	_ = cmd.Run()
	el := time.Since(start).Seconds()
	o := out.String()
	first := ""
	for _, ln := range strings.Split(o, "\n") {
		ln = strings.TrimSpace(ln)
		if ln == "" || strings.HasPrefix(ln, "WARNING") || strings.HasPrefix(ln, "(warning") {
			continue
		}
		first = ln
		break
	}
	st := "error"
	switch first {
	case "sat", "unsat", "unknown":
		st = first
	case "timeout":
		st = "timeout"
	default:
		if cctx.Err() != nil {
			st = "timeout"
		} else if strings.Contains(o, "timeout") || strings.Contains(o, "interrupted") {
			st = "timeout"
		}
	}
	return SolverResult{Status: st, Solver: sd.name, Time: el, Output: o}
}

// Solve races the installed solvers; the first sat/unsat wins. If all is true every
// solver is run to completion and a sat/unsat conflict is reported as status "conflict".
func Solve(script string, timeoutS int, all bool) SolverResult {
	ctx, cancel := context.WithCancel(context.Background())
	defer cancel()
	ch := make(chan SolverResult, len(solverDefs))
	var wg sync.WaitGroup
	for _, sd := range solverDefs {
		wg.Add(1)
		go func(sd solverDef) {
			defer wg.Done()
			ch <- runOne(ctx, sd, script, timeoutS)
		}(sd)
	}
	go func() { wg.Wait(); close(ch) }()
	start := time.Now()
	var best *SolverResult
	details := map[string]string{}
	var fallback SolverResult
	for r := range ch {
		details[r.Solver] = fmt.Sprintf("%s %.2fs", r.Status, r.Time)
		r := r
		if r.Status == "sat" || r.Status == "unsat" {
			if best == nil {
				best = &r
				if !all {
					cancel()
					break
				}
			} else if best.Status != r.Status {
				best.Status = "conflict"
			}
		} else if fallback.Status == "" || fallback.Status == "error" {
			fallback = r
		}
	}
	if best != nil {
		best.Details = details
		best.Time = time.Since(start).Seconds()
		return *best
	}
	fallback.Details = details
	fallback.Time = time.Since(start).Seconds()
	if fallback.Status == "" {
		fallback.Status = "error"
	}
	return fallback
}
