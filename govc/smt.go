package main

import (
	"bytes"
	"regexp"
	"context"
	"fmt"
	"os/exec"
	"strings"
	"sync"
	"time"
)

type SolverResult struct {
	Status  string // unsat, sat, unknown, timeout, error
	Solver  string
	Time    float64
	Output  string // full output of winning solver (model on sat)
	Details map[string]string
}

type solverDef struct {
	name string
	cmd  func(timeoutS int) []string
	pre  string
}

var solverDefs = []solverDef{
	{"z3-new-5.1.0", func(t int) []string { return []string{"z3-new", "-in", fmt.Sprintf("-T:%d", t)} }, ""},
	{"z3-4.8.12", func(t int) []string { return []string{"z3", "-in", fmt.Sprintf("-T:%d", t)} }, ""},
	{"cvc5-1.0", func(t int) []string {
		return []string{"cvc5", "--lang=smt2", "--produce-models", fmt.Sprintf("--tlimit=%d", t*1000)}
	}, ""},
}

var solverSem = make(chan struct{}, 40)

func runOne(ctx context.Context, sd solverDef, script string, timeoutS int) SolverResult {
	solverSem <- struct{}{}
	defer func() { <-solverSem }()
	start := time.Now()
	args := sd.cmd(timeoutS)
	cctx, cancel := context.WithTimeout(ctx, time.Duration(timeoutS+2)*time.Second)
	defer cancel()
	cmd := exec.CommandContext(cctx, args[0], args[1:]...)
	cmd.Stdin = strings.NewReader(script)
	var out bytes.Buffer
	cmd.Stdout = &out
	cmd.Stderr = &out
	_ = cmd.Run()
	el := time.Since(start).Seconds()
	o := out.String()
	first := ""
	for _, ln := range strings.Split(o, "\n") {
		ln = strings.TrimSpace(ln)
		if ln == "" || strings.HasPrefix(ln, "WARNING") || strings.HasPrefix(ln, "(warning") {
			continue
		}
		first = ln
		break
	}
	st := "error"
	switch first {
	case "sat", "unsat", "unknown":
		st = first
	case "timeout":
		st = "timeout"
	default:
		if cctx.Err() != nil {
			st = "timeout"
		} else if strings.Contains(o, "timeout") || strings.Contains(o, "interrupted") {
			st = "timeout"
		}
	}
	return SolverResult{Status: st, Solver: sd.name, Time: el, Output: o}
}

// Solve races the installed solvers; the first sat/unsat wins. If all is true every
// solver is run to completion and a sat/unsat conflict is reported as status "conflict".
func Solve(script string, timeoutS int, all bool) SolverResult {
	return SolveLight(script, "", timeoutS, all)
}

// lightScript weakens the hypotheses of a script by removing their quantified parts: a
// quantifier in positive position becomes true, in negative position false; an assertion in
// which a quantifier occurs under both polarities is dropped. The goal (last assertion) is kept.
// Weakening hypotheses is sound for refutation: unsat of the light script implies unsat of the
// full one (sat means nothing).
func lightScript(script string) string {
	var b strings.Builder
	changed := 0
	lines := strings.Split(script, "\n")
	last := -1
	for i, ln := range lines {
		if strings.HasPrefix(ln, "(assert ") {
			last = i
		}
	}
	for i, ln := range lines {
		if strings.HasPrefix(ln, "(get-value") {
			continue
		}
		if i != last && strings.HasPrefix(ln, "(assert ") && (strings.Contains(ln, "(forall ") || strings.Contains(ln, "(exists ")) {
			changed++
			if w, ok := weakenAssert(ln); ok {
				b.WriteString(w)
				b.WriteByte('\n')
			}
			continue
		}
		if i != last && strings.HasPrefix(ln, "(define-fun ") && (strings.Contains(ln, "(forall ") || strings.Contains(ln, "(exists ")) && !strings.HasPrefix(ln, "(define-fun sp_") {
			return "" // a quantified definition in the path: no light variant
		}
		b.WriteString(ln)
		b.WriteByte('\n')
	}
	if changed == 0 {
		return ""
	}
	return b.String()
}

type sx struct {
	atom string
	kids []*sx
}

func parseSx(s string, pos *int) *sx {
	for *pos < len(s) && (s[*pos] == ' ' || s[*pos] == '\t') {
		*pos++
	}
	if *pos >= len(s) {
		return nil
	}
	if s[*pos] == '(' {
		*pos++
		n := &sx{}
		for {
			for *pos < len(s) && s[*pos] == ' ' {
				*pos++
			}
			if *pos >= len(s) {
				return nil
			}
			if s[*pos] == ')' {
				*pos++
				return n
			}
			k := parseSx(s, pos)
			if k == nil {
				return nil
			}
			n.kids = append(n.kids, k)
		}
	}
	st := *pos
	if s[*pos] == '|' {
		*pos++
		for *pos < len(s) && s[*pos] != '|' {
			*pos++
		}
		*pos++
	} else if s[*pos] == '"' {
		*pos++
		for *pos < len(s) && s[*pos] != '"' {
			*pos++
		}
		*pos++
	} else {
		for *pos < len(s) && s[*pos] != ' ' && s[*pos] != '(' && s[*pos] != ')' {
			*pos++
		}
	}
	return &sx{atom: s[st:*pos]}
}

func (n *sx) String() string {
	if n.kids == nil && n.atom != "" {
		return n.atom
	}
	parts := make([]string, len(n.kids))
	for i, k := range n.kids {
		parts[i] = k.String()
	}
	return "(" + strings.Join(parts, " ") + ")"
}

func (n *sx) hasQuant() bool {
	if n.kids == nil {
		return false
	}
	if len(n.kids) > 0 && (n.kids[0].atom == "forall" || n.kids[0].atom == "exists") {
		return true
	}
	for _, k := range n.kids {
		if k.hasQuant() {
			return true
		}
	}
	return false
}

// weaken returns a formula implied by n (pol=+1) or implying n (pol=-1) without quantifiers.
func weaken(n *sx, pol int) (*sx, bool) {
	if !n.hasQuant() {
		return n, true
	}
	head := n.kids[0].atom
	switch head {
	case "forall", "exists":
		if pol > 0 {
			return &sx{atom: "true"}, true
		}
		return &sx{atom: "false"}, true
	case "!":
		return weaken(n.kids[1], pol)
	case "and", "or":
		out := &sx{kids: []*sx{n.kids[0]}}
		for _, k := range n.kids[1:] {
			w, ok := weaken(k, pol)
			if !ok {
				return nil, false
			}
			out.kids = append(out.kids, w)
		}
		return out, true
	case "not":
		w, ok := weaken(n.kids[1], -pol)
		if !ok {
			return nil, false
		}
		return &sx{kids: []*sx{n.kids[0], w}}, true
	case "=>":
		out := &sx{kids: []*sx{n.kids[0]}}
		for i, k := range n.kids[1:] {
			p := -pol
			if i == len(n.kids)-2 {
				p = pol
			}
			w, ok := weaken(k, p)
			if !ok {
				return nil, false
			}
			out.kids = append(out.kids, w)
		}
		return out, true
	case "ite":
		if n.kids[1].hasQuant() {
			return nil, false
		}
		a, ok1 := weaken(n.kids[2], pol)
		b, ok2 := weaken(n.kids[3], pol)
		if !ok1 || !ok2 {
			return nil, false
		}
		return &sx{kids: []*sx{n.kids[0], n.kids[1], a, b}}, true
	}
	return nil, false
}

func weakenAssert(line string) (string, bool) {
	pos := 0
	n := parseSx(line, &pos)
	if n == nil || len(n.kids) != 2 || n.kids[0].atom != "assert" {
		return "", false
	}
	w, ok := weaken(n.kids[1], 1)
	if !ok {
		return "", false
	}
	return "(assert " + w.String() + ")", true
}

var symRe = regexp.MustCompile(`[A-Za-z_][A-Za-z0-9_@!$.]*`)

var smtKeywords = map[string]bool{"assert": true, "and": true, "or": true, "not": true, "ite": true, "select": true, "store": true,
	"forall": true, "exists": true, "let": true, "true": true, "false": true, "distinct": true, "define": true, "fun": true, "declare": true,
	"const": true, "Int": true, "Bool": true, "Array": true, "BitVec": true, "extract": true, "zero_extend": true, "sign_extend": true, "as": true,
	"mk_slice": true, "sl_arr": true, "sl_off": true, "sl_len": true, "sl_cap": true, "Slice": true, "N0": true}

func lineSyms(ln string) []string {
	var out []string
	for _, m := range symRe.FindAllString(ln, -1) {
		if smtKeywords[m] || strings.HasPrefix(m, "bv") || strings.HasPrefix(m, "define-") || strings.HasPrefix(m, "declare-") {
			continue
		}
		out = append(out, m)
	}
	return out
}

// slicedScript keeps only the hypotheses within `rounds` steps of the goal in the
// "shares a (not ubiquitous) symbol" graph. Dropping hypotheses is sound for refutation.
func slicedScript(script string, rounds int) string {
	lines := strings.Split(script, "\n")
	last := -1
	nAssert := 0
	for i, ln := range lines {
		if strings.HasPrefix(ln, "(assert ") {
			last = i
			nAssert++
		}
	}
	if last < 0 || nAssert < 12 {
		return ""
	}
	defs := map[string][]string{}
	syms := make([][]string, len(lines))
	freq := map[string]int{}
	for i, ln := range lines {
		if strings.HasPrefix(ln, "(define-fun ") {
			f := strings.Fields(ln)
			name := f[1]
			defs[name] = lineSyms(ln[len("(define-fun ")+len(name):])
		} else if strings.HasPrefix(ln, "(assert ") {
			syms[i] = lineSyms(ln)
			seen := map[string]bool{}
			for _, s := range syms[i] {
				if !seen[s] {
					seen[s] = true
					freq[s]++
				}
			}
		}
	}
	cut := nAssert / 4
	if cut < 6 {
		cut = 6
	}
	rel := map[string]bool{}
	var add func(s string, depth int)
	add = func(s string, depth int) {
		if rel[s] || depth > 40 {
			return
		}
		rel[s] = true
		for _, d := range defs[s] {
			add(d, depth+1)
		}
	}
	for _, s := range syms[last] {
		add(s, 0)
	}
	keep := map[int]bool{last: true}
	for r := 0; r < rounds; r++ {
		var newly []int
		for i, ss := range syms {
			if ss == nil || keep[i] {
				continue
			}
			hit := false
			for _, s := range ss {
				if rel[s] && freq[s] <= cut && !strings.HasPrefix(s, "sp_") {
					hit = true
					break
				}
			}
			if hit {
				newly = append(newly, i)
			}
		}
		for _, i := range newly {
			keep[i] = true
			for _, s := range syms[i] {
				add(s, 0)
			}
		}
	}
	if len(keep) >= nAssert {
		return ""
	}
	var b strings.Builder
	for i, ln := range lines {
		if strings.HasPrefix(ln, "(assert ") && !keep[i] {
			continue
		}
		if strings.HasPrefix(ln, "(get-value") {
			continue
		}
		b.WriteString(ln)
		b.WriteByte('\n')
	}
	return b.String()
}

// SolveLight races the solvers on the full script and, if light is non-empty, on a weakened
// script whose unsat answers count as well.
func SolveLight(script, light string, timeoutS int, all bool) SolverResult {
	ctx, cancel := context.WithCancel(context.Background())
	defer cancel()
	ch := make(chan SolverResult, 8*len(solverDefs))
	var wg sync.WaitGroup
	for _, sd := range solverDefs {
		wg.Add(1)
		go func(sd solverDef) {
			defer wg.Done()
			ch <- runOne(ctx, sd, script, timeoutS)
		}(sd)
	}
	if light != "" {
		// weakened variants start a little later: most obligations are decided at once
		variants := []struct{ script, tag string }{{light, " (quantifier-free hypotheses)"}}
		if s2 := slicedScript(script, 2); s2 != "" {
			variants = append(variants, struct{ script, tag string }{s2, " (hypotheses near the goal)"})
			if l2 := lightScript(s2); l2 != "" {
				variants = append(variants, struct{ script, tag string }{l2, " (quantifier-free hypotheses near the goal)"})
			}
		}
		for _, vr := range variants {
			for _, sd := range solverDefs {
				if sd.name == "z3-4.8.12" {
					continue
				}
				wg.Add(1)
				go func(sd solverDef, vs, tag string) {
					defer wg.Done()
					select {
					case <-ctx.Done():
						return
					case <-time.After(1500 * time.Millisecond):
					}
					r := runOne(ctx, sd, vs, timeoutS)
					if r.Status != "unsat" {
						r.Status = "unknown" // a weakened script refutes, it never confirms
					}
					r.Solver += tag
					ch <- r
				}(sd, vr.script, vr.tag)
			}
		}
	}
	go func() { wg.Wait(); close(ch) }()
	start := time.Now()
	var best *SolverResult
	details := map[string]string{}
	var fallback SolverResult
	fullDone := 0
	for r := range ch {
		details[r.Solver] = fmt.Sprintf("%s %.2fs", r.Status, r.Time)
		r := r
		if !strings.Contains(r.Solver, " (") {
			fullDone++
		}
		if r.Status == "sat" || r.Status == "unsat" {
			if best == nil {
				best = &r
				if !all {
					cancel()
					break
				}
			} else if best.Status != r.Status {
				best.Status = "conflict"
			}
		} else if fallback.Status == "" || fallback.Status == "error" {
			fallback = r
		}
		if all && best != nil && fullDone == len(solverDefs) {
			// thorough tier: every solver has answered on the full script (or run out of time) and there is an
			// answer; the weakened variants still running cannot change it
			cancel()
			break
		}
	}
	if best != nil {
		best.Details = details
		best.Time = time.Since(start).Seconds()
		return *best
	}
	fallback.Details = details
	fallback.Time = time.Since(start).Seconds()
	if fallback.Status == "" {
		fallback.Status = "error"
	}
	return fallback
}
