package main

// Contract files. Contracts are structured comments:
//
//	//@ func queue.Put                (Type.Method | Func; key is <pkgpath>.<that>)
//	//@   prop C05 C06
//	//@   arith bv|math
//	//@   requires <expr>
//	//@   ensures <expr>
//	//@   modifies <loc>, <loc> ...    (x.f | x.f.g | * )
//	//@   loop 1 invariant <expr>
//	//@   loop 1 decreases <expr>
//	//@   may_panic
//	//@ end
//
// Top-level declarations (same files):
//
//	//@ pure name(a int64, b int64) int64 = <expr>
//	//@ uf name(int64, int64) int64
//	//@ axiom name: <expr with forall(...)>
//	//@ lemma name [prop C..]: <expr>
//	//@ ghost field T.name <type>
//	//@ lock T.field protects f1 f2 invariant <expr over self>
//	//@ extern func <full/pkg/path>.Type.Method   (assumed contract; same clauses)
//
// A clause may continue on following lines that start with "//@     |".

import (
	"bufio"
	"fmt"
	"os"
	"path/filepath"
	"sort"
	"strings"
)

type Clause struct {
	Kind string // requires, ensures, invariant, decreases
	Text string
	Loop int
	File string
	Line int
	Name string // optional label: "ensures[name] expr"
}

type Contract struct {
	Key       string // pkgpath.Type.Method or pkgpath.Func
	Pkg       string
	Props     []string
	Arith     string
	Requires  []Clause
	Ensures   []Clause
	Modifies  []string
	HasMod    bool
	LoopInv   map[int][]Clause
	LoopDec   map[int][]Clause
	LoopFrame map[int][]string // "loop N frame locs": everything else is unchanged since function entry
	MayPanic  bool
	Extern    bool
	Trusted   bool // contract assumed, body not verified (internal function marked "assume")
	NoBody    bool // do not verify body even if present
	Fresh     bool // result 0 is a freshly allocated object
	Inline    bool
	File      string
	Line      int
	Opaque    bool
	Atomic    bool
	TimeoutS int
	Clock    bool
	NoRefine bool
	Paths    bool
	Apply    []Clause // explicit lemma instances assumed at entry
	Notes     []string
	ParamName []string // optional override of parameter names (extern)
	Uses      []string // lemmas (proved elsewhere) assumed while verifying this function
	Opaque2   []string // spec functions whose bodies are hidden while verifying this function
	Persistent bool    // the call changes persistent state (a crash point follows it)
	Crash     []Clause // crash invariants: must hold after every persistent call made by this function
	Atomic2   []string // "atomic mu": all critical sections of lock mu in this function form one atomic step
	Regions   bool     // verify with heap arrays split by allocation time (see FV.side)
	Holds     []string // lock fields of the receiver the caller holds ("holds mu" / "holds mu:r")
	Unshared  bool     // object under construction: lockset checks off
	EnsuresRecovered []Clause // must hold at exits reached through a recovered panic
	GhostEntry []Clause // "ghost_entry x.f = expr": ghost assignments performed at function entry
	GhostSet  []Clause // "ghost_assign x.f = expr": ghost assignments performed at every normal exit
	GhostAfter []Clause // "ghost_after callee x.f = expr": performed after each direct call of a matching callee
	PanicsOf  []string // "panics name...": callees treated as may_panic while verifying this function only
	Focus     []string // "focus name...": thin contract - only the obligations of the named clauses (and the vacuity guards) are claimed
}

type PureFn struct {
	Name   string
	Params []Param
	Ret    string
	Body   string // empty: uninterpreted
	Macro  bool   // heap-dependent predicate, expanded at use sites
	Pkg    string
	File   string
	Line   int
}

type Param struct{ Name, Type string }

type Axiom struct {
	Name  string
	Text  string
	Pkg   string
	Props []string
	Lemma bool
	Arith string
	File  string
	Line  int
	Opaque []string // for lemma: spec functions kept uninterpreted in its proof
	Uses  []string // for lemma: names of axioms allowed as hypotheses ("using a b"); empty = all axioms
}

type GhostField struct {
	Owner string // pkgpath.Type
	Name  string
	Type  string
	Pkg   string
}

type LockDecl struct {
	Owner     string // pkgpath.Type
	Field     string
	Protects  []string
	Invariant string
	RWrites   []string // fields that may be written under the read lock (declared, reported in evidence)
	Serializes []string // other lock fields of the same object whose critical sections this lock groups into one atomic step
	Pkg       string
	File      string
	Line      int
}

// SharedDecl: state of objects of type Owner that other threads may change at any time.
// Invariant holds at every instant; Rely bounds what others may do between two of our steps
// (our own steps must respect it as well: guarantee == rely).
type SharedDecl struct {
	Owner     string
	Locations []string
	Invariant string
	Rely      string
	Pkg, File string
	Line      int
}

type GlobalInv struct {
	Pkg, Text, File string
	Line            int
}

type SpecDB struct {
	GlobalInvs []*GlobalInv
	Stable     map[string]bool // "pkgpath.Type.field": written only while the object is under construction
	Shared     map[string]*SharedDecl
	Contracts map[string]*Contract
	Pure      map[string]*PureFn // key: pkgpath.name and bare name for global ones
	Axioms    []*Axiom
	Ghosts    map[string][]*GhostField // owner -> fields
	Locks     map[string]*LockDecl     // owner.field
	Files     []string
	PureOrder []string
}

func NewSpecDB() *SpecDB {
	return &SpecDB{Contracts: map[string]*Contract{}, Pure: map[string]*PureFn{}, Ghosts: map[string][]*GhostField{}, Locks: map[string]*LockDecl{}, Shared: map[string]*SharedDecl{}, Stable: map[string]bool{}}
}

// qualify makes "Type.Method" or "Func" into a full key in pkg; names that already
// contain a '/' or whose first segment contains a '.' followed by more dots are taken as
// full paths.
func qualify(pkg, name string) string {
	if strings.Contains(name, "/") {
		return name
	}
	// stdlib style "time.Unix" / "sync.Mutex.Lock" when used with extern
	return pkg + "." + name
}

func (db *SpecDB) LoadFile(path, pkgPath string) error {
	f, err := os.Open(path)
	if err != nil {
		return err
	}
	defer f.Close()
	db.Files = append(db.Files, path)
	sc := bufio.NewScanner(f)
	sc.Buffer(make([]byte, 1<<20), 1<<20)
	var lines []string
	var lnos []int
	ln := 0
	for sc.Scan() {
		ln++
		t := strings.TrimSpace(sc.Text())
		if !strings.HasPrefix(t, "//@") {
			continue
		}
		t = strings.TrimSpace(strings.TrimPrefix(t, "//@"))
		if t == "" || strings.HasPrefix(t, "#") {
			continue
		}
		if strings.HasPrefix(t, "|") && len(lines) > 0 {
			lines[len(lines)-1] += " " + strings.TrimSpace(strings.TrimPrefix(t, "|"))
			continue
		}
		lines = append(lines, t)
		lnos = append(lnos, ln)
	}
	var cur *Contract
	var curShared *SharedDecl
	curPkg := pkgPath
	for i, t := range lines {
		ln := lnos[i]
		word, rest := splitWord(t)
		switch word {
		case "package":
			curPkg = strings.TrimSpace(rest)
			continue
		case "func", "extern":
			ext := false
			if word == "extern" {
				ext = true
				w2, r2 := splitWord(rest)
				if w2 != "func" {
					return fmt.Errorf("%s:%d: expected 'extern func'", path, ln)
				}
				rest = r2
			}
			name, _ := splitWord(rest)
			key := name
			if !ext || !strings.Contains(name, ".") {
				key = qualify(curPkg, name)
			} else if ext {
				key = name
			}
			if _, dup := db.Contracts[key]; dup {
				return fmt.Errorf("%s:%d: duplicate contract for %s", path, ln, key)
			}
			cur = &Contract{Key: key, Pkg: curPkg, Extern: ext, LoopInv: map[int][]Clause{}, LoopDec: map[int][]Clause{}, File: path, Line: ln}
			db.Contracts[key] = cur
			continue
		case "end":
			cur = nil
			curShared = nil
			continue
		case "stable":
			for _, f := range strings.Fields(rest) {
				db.Stable[qualify(curPkg, f)] = true
			}
			cur = nil
			continue
		case "shared":
			curShared = &SharedDecl{Owner: qualify(curPkg, strings.TrimSpace(rest)), Pkg: curPkg, File: path, Line: ln}
			db.Shared[curShared.Owner] = curShared
			cur = nil
			continue
		case "pure", "uf", "predicate":
			p, err := parsePure(rest, word == "uf")
			if err == nil && word == "predicate" {
				p.Macro = true
			}
			if err != nil {
				return fmt.Errorf("%s:%d: %v", path, ln, err)
			}
			p.Pkg, p.File, p.Line = curPkg, path, ln
			if _, dup := db.Pure[p.Name]; dup {
				return fmt.Errorf("%s:%d: duplicate pure %s", path, ln, p.Name)
			}
			db.Pure[p.Name] = p
			db.PureOrder = append(db.PureOrder, p.Name)
			cur = nil
			continue
		case "axiom", "lemma":
			idx := strings.Index(rest, ":")
			if idx < 0 {
				return fmt.Errorf("%s:%d: axiom needs 'name: expr'", path, ln)
			}
			head := strings.Fields(rest[:idx])
			ax := &Axiom{Name: head[0], Text: strings.TrimSpace(rest[idx+1:]), Pkg: curPkg, Lemma: word == "lemma", File: path, Line: ln, Arith: "math"}
			for j := 1; j < len(head); j++ {
				switch head[j] {
				case "prop":
					for j+1 < len(head) && strings.HasPrefix(head[j+1], "C") {
						ax.Props = append(ax.Props, head[j+1])
						j++
					}
				case "bv":
					ax.Arith = "bv"
				case "math":
					ax.Arith = "math"
				case "opaque":
					for j+1 < len(head) && head[j+1] != "prop" && head[j+1] != "using" {
						ax.Opaque = append(ax.Opaque, head[j+1])
						j++
					}
				case "any":
					ax.Arith = "any" // stated with operators that mean the same in both integer modes
				case "using":
					for j+1 < len(head) && head[j+1] != "prop" && head[j+1] != "opaque" {
						ax.Uses = append(ax.Uses, head[j+1])
						j++
					}
				}
			}
			db.Axioms = append(db.Axioms, ax)
			cur = nil
			continue
		case "ghost":
			w2, r2 := splitWord(rest)
			if w2 != "field" {
				return fmt.Errorf("%s:%d: only 'ghost field' supported", path, ln)
			}
			fs := strings.Fields(r2)
			if len(fs) < 2 {
				return fmt.Errorf("%s:%d: ghost field T.name type", path, ln)
			}
			dot := strings.LastIndex(fs[0], ".")
			owner := fs[0][:dot]
			if !strings.Contains(owner, "/") && !strings.Contains(owner, ".") {
				owner = curPkg + "." + owner
			}
			g := &GhostField{Owner: owner, Name: fs[0][dot+1:], Type: strings.Join(fs[1:], " "), Pkg: curPkg}
			db.Ghosts[owner] = append(db.Ghosts[owner], g)
			cur = nil
			continue
		case "globalinv":
			db.GlobalInvs = append(db.GlobalInvs, &GlobalInv{Pkg: curPkg, Text: rest, File: path, Line: ln})
			cur = nil
			continue
		case "lock":
			fs := strings.Fields(rest)
			dot := strings.LastIndex(fs[0], ".")
			ld := &LockDecl{Owner: qualify(curPkg, fs[0][:dot]), Field: fs[0][dot+1:], Pkg: curPkg, File: path, Line: ln}
			j := 1
			if j < len(fs) && fs[j] == "protects" {
				j++
				for j < len(fs) && fs[j] != "invariant" && fs[j] != "rwrites" {
					ld.Protects = append(ld.Protects, strings.Trim(fs[j], ","))
					j++
				}
			}
			if j < len(fs) && fs[j] == "serializes" {
				j++
				for j < len(fs) && fs[j] != "invariant" && fs[j] != "protects" && fs[j] != "rwrites" {
					ld.Serializes = append(ld.Serializes, strings.Trim(fs[j], ","))
					j++
				}
			}
			if j < len(fs) && fs[j] == "rwrites" {
				j++
				for j < len(fs) && fs[j] != "invariant" {
					ld.RWrites = append(ld.RWrites, strings.Trim(fs[j], ","))
					j++
				}
			}
			if j < len(fs) && fs[j] == "invariant" {
				ld.Invariant = strings.Join(fs[j+1:], " ")
			}
			db.Locks[ld.Owner+"."+ld.Field] = ld
			cur = nil
			continue
		}
		if curShared != nil {
			switch word {
			case "locations":
				curShared.Locations = append(curShared.Locations, strings.Fields(rest)...)
			case "invariant":
				curShared.Invariant = rest
			case "rely":
				curShared.Rely = rest
			default:
				return fmt.Errorf("%s:%d: unknown shared clause %q", path, ln, word)
			}
			continue
		}
		if cur == nil {
			return fmt.Errorf("%s:%d: clause %q outside a contract", path, ln, word)
		}
		label := ""
		if k := strings.Index(word, "["); k > 0 && strings.HasSuffix(word, "]") {
			label = word[k+1 : len(word)-1]
			word = word[:k]
		}
		switch word {
		case "prop":
			cur.Props = append(cur.Props, strings.Fields(rest)...)
		case "arith":
			cur.Arith = strings.TrimSpace(rest)
		case "requires":
			cur.Requires = append(cur.Requires, Clause{Kind: word, Text: rest, File: path, Line: ln, Name: label})
		case "ensures":
			cur.Ensures = append(cur.Ensures, Clause{Kind: word, Text: rest, File: path, Line: ln, Name: label})
		case "ensures_recovered":
			cur.EnsuresRecovered = append(cur.EnsuresRecovered, Clause{Kind: word, Text: rest, File: path, Line: ln, Name: label})
		case "modifies":
			cur.HasMod = true
			for _, m := range splitTop(rest) {
				m = strings.TrimSpace(m)
				if m != "" && m != "nothing" {
					cur.Modifies = append(cur.Modifies, m)
				}
			}
		case "loop":
			var n int
			w2, r2 := splitWord(rest)
			if _, err := fmt.Sscanf(w2, "%d", &n); err != nil {
				return fmt.Errorf("%s:%d: loop needs ordinal", path, ln)
			}
			w3, r3 := splitWord(r2)
			lbl := ""
			if k := strings.Index(w3, "["); k > 0 && strings.HasSuffix(w3, "]") {
				lbl = w3[k+1 : len(w3)-1]
				w3 = w3[:k]
			}
			switch w3 {
			case "invariant":
				cur.LoopInv[n] = append(cur.LoopInv[n], Clause{Kind: w3, Text: r3, Loop: n, File: path, Line: ln, Name: lbl})
			case "decreases":
				cur.LoopDec[n] = append(cur.LoopDec[n], Clause{Kind: w3, Text: r3, Loop: n, File: path, Line: ln})
			case "frame":
				if cur.LoopFrame == nil {
					cur.LoopFrame = map[int][]string{}
				}
				for _, m := range splitTop(r3) {
					if m = strings.TrimSpace(m); m != "" {
						cur.LoopFrame[n] = append(cur.LoopFrame[n], m)
					}
				}
				if _, ok := cur.LoopFrame[n]; !ok {
					cur.LoopFrame[n] = []string{}
				}
			default:
				return fmt.Errorf("%s:%d: unknown loop clause %q", path, ln, w3)
			}
		case "may_panic":
			cur.MayPanic = true
		case "assume", "trusted":
			cur.Trusted = true
		case "fresh":
			cur.Fresh = true
		case "inline":
			cur.Inline = true
		case "atomic":
			cur.Atomic = true
			cur.Atomic2 = append(cur.Atomic2, strings.Fields(rest)...)
		case "note":
			cur.Notes = append(cur.Notes, rest)
		case "clock":
			// the contracts used here mention now(): keep the logical clock while verifying this function
			cur.Clock = true
		case "norefine":
			// an interface contract that is assumed at call sites without being tied to the contracts
			// of the implementations (listed as an assumption)
			cur.NoRefine = true
		case "paths":
			// verify every path through the (loop-free) body separately instead of merging at joins
			cur.Paths = true
		case "apply":
			// "apply lemma(args...)": the proved lemma instantiated at function entry
			cur.Apply = append(cur.Apply, Clause{Kind: word, Text: rest, File: path, Line: ln})
		case "timeout":
			// minimum solver budget (seconds) for the obligations of this function
			fmt.Sscanf(rest, "%d", &cur.TimeoutS)
		case "params":
			cur.ParamName = strings.Fields(rest)
		case "opaque":
			cur.Opaque2 = append(cur.Opaque2, strings.Fields(rest)...)
		case "persistent":
			cur.Persistent = true
		case "crash":
			cur.Crash = append(cur.Crash, Clause{Kind: word, Text: rest, File: path, Line: ln, Name: label})
		case "regions":
			cur.Regions = true
		case "holds":
			cur.Holds = append(cur.Holds, strings.Fields(rest)...)
		case "unshared":
			cur.Unshared = true
		case "ghost_entry":
			cur.GhostEntry = append(cur.GhostEntry, Clause{Kind: word, Text: rest, File: path, Line: ln})
		case "ghost_assign":
			cur.GhostSet = append(cur.GhostSet, Clause{Kind: word, Text: rest, File: path, Line: ln})
		case "ghost_after":
			// ghost_after <callee name part> x.f = expr : ghost assignment performed right after every call (made
			// by the function itself) whose callee name contains the given text; `result` is the call's first result
			w3, r3 := splitWord(rest)
			cur.GhostAfter = append(cur.GhostAfter, Clause{Kind: word, Name: w3, Text: r3, File: path, Line: ln})
		case "uses":
			cur.Uses = append(cur.Uses, strings.Fields(rest)...)
		case "panics":
			cur.PanicsOf = append(cur.PanicsOf, strings.Fields(rest)...)
		case "focus":
			// thin contract: of all the obligations the body generates only those that belong to the named clauses
			// (an ensures clause of this function, or a named requires clause of a callee) are claimed, together with
			// the vacuity guards and contract-binding (spec) obligations; everything else is generated but not claimed
			cur.Focus = append(cur.Focus, strings.Fields(rest)...)
		default:
			return fmt.Errorf("%s:%d: unknown clause %q", path, ln, word)
		}
	}
	return nil
}

func splitWord(s string) (string, string) {
	s = strings.TrimSpace(s)
	i := strings.IndexAny(s, " \t")
	if i < 0 {
		return s, ""
	}
	return s[:i], strings.TrimSpace(s[i+1:])
}

func parsePure(s string, uf bool) (*PureFn, error) {
	// name(a T, b T) R = body      |  name(T, T) R
	lp := strings.Index(s, "(")
	if lp < 0 {
		return nil, fmt.Errorf("pure: missing (")
	}
	depth := 0
	rp := -1
	for i := lp; i < len(s); i++ {
		if s[i] == '(' {
			depth++
		} else if s[i] == ')' {
			depth--
			if depth == 0 {
				rp = i
				break
			}
		}
	}
	if rp < 0 {
		return nil, fmt.Errorf("pure: missing )")
	}
	p := &PureFn{Name: strings.TrimSpace(s[:lp])}
	args := strings.TrimSpace(s[lp+1 : rp])
	if args != "" {
		for k, a := range strings.Split(args, ",") {
			fs := strings.Fields(a)
			if len(fs) == 1 {
				p.Params = append(p.Params, Param{Name: fmt.Sprintf("a%d", k), Type: fs[0]})
			} else if len(fs) >= 2 {
				p.Params = append(p.Params, Param{Name: fs[0], Type: strings.Join(fs[1:], " ")})
			}
		}
	}
	rest := strings.TrimSpace(s[rp+1:])
	if eq := strings.Index(rest, "="); eq >= 0 && !uf {
		p.Ret = strings.TrimSpace(rest[:eq])
		p.Body = strings.TrimSpace(rest[eq+1:])
	} else {
		p.Ret = rest
	}
	if p.Ret == "" {
		return nil, fmt.Errorf("pure %s: missing result type", p.Name)
	}
	return p, nil
}

// LoadDir loads every *.spec under dir (external assumed contracts).
func (db *SpecDB) LoadDir(dir string) error {
	ents, err := os.ReadDir(dir)
	if err != nil {
		return err
	}
	var names []string
	for _, e := range ents {
		if strings.HasSuffix(e.Name(), ".spec") {
			names = append(names, e.Name())
		}
	}
	sort.Strings(names)
	for _, n := range names {
		if err := db.LoadFile(filepath.Join(dir, n), "external"); err != nil {
			return err
		}
	}
	return nil
}

// splitTop splits at commas that are not inside parentheses, brackets or string literals.
func splitTop(s string) []string {
	var parts []string
	depth, last := 0, 0
	inStr := false
	for i := 0; i < len(s); i++ {
		c := s[i]
		if inStr {
			if c == '\\' {
				i++
			} else if c == '"' {
				inStr = false
			}
			continue
		}
		switch c {
		case '"':
			inStr = true
		case '(', '[', '{':
			depth++
		case ')', ']', '}':
			depth--
		case ',':
			if depth == 0 {
				parts = append(parts, s[last:i])
				last = i + 1
			}
		}
	}
	return append(parts, s[last:])
}
