package main

import (
	"os"
	"strconv"
	"fmt"
	"go/ast"
	"regexp"
	"go/types"
	"sort"
	"strings"

	"golang.org/x/tools/go/ssa"
)

func (e *Engine) newFV(fn *ssa.Function, con *Contract, mode Mode) *FV {
	v := &FV{eng: e, top: fn, con: con, mode: mode, ghostAfterHits: map[string]int{}, preSeen: map[string]bool{}, arrays: map[string]string{}, refArrays: map[string]bool{}, stableArrays: map[string]bool{}, freshSet: map[string]bool{}, sliceArr: map[string]Term{}, assumed: map[string]bool{}, trusted: map[string]bool{},
		oblNames: map[string]int{}, strLits: map[string]Term{}, kindCount: map[string]int{}}
	v.useClock = con != nil && con.Clock
	v.n0 = "N0!"
	v.pre("n0", "(declare-const N0! Int)")
	v.pre("n0pos", "(assert (> N0! 0))")
	v.pre("dyn_type", "(declare-fun dyn_type (Int) Int)")
	v.regArray("CALLS", fmt.Sprintf("(Array Int %s)", v.idx()))
	v.regArray("ARGNN", "(Array Int Bool)")
	return v
}

func modeOf(con *Contract) Mode {
	if con != nil && con.Arith == "math" {
		return ModeMath
	}
	return ModeBV
}

// assertAxioms puts the spec axioms into the preamble (those whose arith mode matches).
func (v *FV) assertAxioms(only []string) {
	for _, ax := range v.eng.db.Axioms {
		if ax.Lemma {
			used := false
			if v.con != nil {
				for _, u := range v.con.Uses {
					if u == ax.Name {
						used = true
					}
				}
			}
			if !used {
				continue
			}
			v.trusted["lemma "+ax.Name+" (proved as its own obligation, used here as a hypothesis)"] = true
		}
		if ax.Arith != "any" && (ax.Arith == "math") != (v.mode == ModeMath) {
			continue
		}
		if strings.Contains(ax.File, "/zz_verif_spec.go") && v.pkgOf(ax.Pkg) == nil {
			continue // axiom of a package that is not part of this property's program
		}
		if only != nil {
			found := false
			for _, n := range only {
				if n == ax.Name {
					found = true
				}
			}
			if !found {
				continue
			}
		}
		env := &ExprEnv{v: v, vars: map[string]TV{}, pkg: v.pkgOf(ax.Pkg), what: "axiom " + ax.Name}
		t, err := env.EvalBool(ax.Text)
		if err != nil {
			if strings.Contains(err.Error(), "unknown type") && strings.Contains(ax.Text, "/") && !strings.Contains(ax.File, "/zz_verif_spec.go") {
				continue // an external axiom about a package that is not part of this program
			}
			v.specError(Clause{File: ax.File, Line: ax.Line, Text: ax.Text}, err)
			continue
		}
		v.axioms = append(v.axioms, axiomTerm{ax.Name, t, shortFile(ax.File)})
	}
}

func shortFile(f string) string {
	f = strings.TrimPrefix(f, "/repo/")
	f = strings.TrimPrefix(f, "/verif/")
	return f
}

// VerifyFunction generates all obligations for fn under its contract.
func (e *Engine) VerifyFunction(fn *ssa.Function, con *Contract) (v *FV) {
	v = e.newFV(fn, con, modeOf(con))
	v.regions = con.Regions
	v.curFnKey = shortKey(con.Key)
	defer func() {
		if r := recover(); r != nil {
			if ee, ok := r.(*exprError); ok {
				v.oblige("engine", "", "", "verifier could not process the function: "+ee.msg, "true", "false")
				return
			}
			panic(r)
		}
	}()
	v.assertAxioms(nil)
	fr := v.newFrame(fn, 0)
	fr.isTop = true
	fr.con = con
	v.topFrame = fr
	st := &State{reach: "true", snap: &Snapshot{ep: v.newEpoch(0), over: map[string]Term{}}, env: map[string]TV{}, addr: map[string]TV{}, held: map[string]string{}}
	st.snap.ep.initial = true
	v.curSt = st
	v.assume("true", fmt.Sprintf("(= %s (+ N0! 1))", v.topOf(st.snap)))
	// parameters
	for i, p := range fn.Params {
		s := v.sortOf(p.Type())
		name := fmt.Sprintf("in_%s", mangle(p.Name()))
		v.emit(fmt.Sprintf("(declare-const %s %s)", name, s))
		v.inputs = append(v.inputs, name)
		tv := TV{T: name, Ty: p.Type(), Sort: s}
		fr.vals[p] = tv
		fr.params[p.Name()] = tv
		if i == 0 && fn.Signature.Recv() != nil {
			fr.params["self"] = tv
			if _, isPtr := p.Type().Underlying().(*types.Pointer); isPtr {
				// implicit precondition of every method under contract: non-nil receiver
				// (checked at call sites of the contract as obligation nil.recv)
				v.emit(fmt.Sprintf("(assert (> %s 0))", name))
			}
		}
		if v.isRefLike(p.Type()) {
			v.assume("true", fmt.Sprintf("(and (>= %s 0) (<= %s %s))", name, name, v.n0))
		} else {
			v.assume("true", v.typeFacts(name, p.Type()))
		}
		v.assume("true", v.preexistFacts(name, p.Type()))
		st.env[p.Name()] = tv
	}
	for _, fvv := range fn.FreeVars {
		s := v.sortOf(fvv.Type())
		name := fmt.Sprintf("fv_%s", mangle(fvv.Name()))
		v.emit(fmt.Sprintf("(declare-const %s %s)", name, s))
		tv := TV{T: name, Ty: fvv.Type(), Sort: s}
		fr.vals[fvv] = tv
		if _, isPtr := fvv.Type().Underlying().(*types.Pointer); isPtr {
			// captured by reference: the name denotes the variable's current value
			v.assume("true", fmt.Sprintf("(and (> %s 0) (<= %s %s))", name, name, v.n0))
			st.addr[fvv.Name()] = tv
			// captured variables belong to the enclosing function: foreign code cannot reassign them
			elem := fvv.Type().Underlying().(*types.Pointer).Elem()
			ro := false
			for i, f2 := range fn.FreeVars {
				if f2 == fvv {
					ro = freeVarReadOnly(fn, i, 0)
				}
			}
			if _, isS := elem.Underlying().(*types.Struct); !isS && ro {
				v.protectedCells = append(v.protectedCells, protectedCell{arr: v.cellArray(elem), ref: name, alloc: fvv, final: true})
				v.trusted["captured variables of a closure under contract are not reassigned by foreign code"] = true
			}
		} else {
			fr.params[fvv.Name()] = tv
		}
	}
	if fn.Signature.Recv() != nil && len(fn.Params) > 0 {
		for _, h := range con.Holds {
			mode := "w"
			if strings.HasSuffix(h, ":r") {
				mode = "r"
				h = strings.TrimSuffix(h, ":r")
			}
			st.held[typeKey(fn.Signature.Recv().Type())+"."+h+"@"+fr.vals[fn.Params[0]].T] = mode
		}
	}
	fr.oldSnap = st.snap.clone()
	for _, gi := range e.db.GlobalInvs {
		if fn.Pkg == nil || gi.Pkg != fn.Pkg.Pkg.Path() {
			continue
		}
		genv := &ExprEnv{v: v, vars: map[string]TV{}, snap: st.snap, pkg: fn.Pkg.Pkg, what: "globalinv"}
		t, err := genv.EvalBool(gi.Text)
		if err != nil {
			v.specError(Clause{File: gi.File, Line: gi.Line, Text: gi.Text}, err)
			continue
		}
		v.assume("true", t)
		v.trusted["package-variable invariant (assumed at entry): "+gi.Text] = true
	}
	if sd, self, ok := v.sharedDecl(); ok && sd.Invariant != "" && !con.Unshared {
		if t, err := v.sharedEnv(sd, self, st.snap, nil, "true").EvalBool(sd.Invariant); err == nil {
			v.assume("true", t)
		} else {
			v.specError(Clause{File: sd.File, Line: sd.Line, Text: sd.Invariant}, err)
		}
	}
	if v.useClock {
		// logical time starts somewhere below 2^62 (it only ever counts the calls of one execution)
		v.regArray("CLOCK", fmt.Sprintf("(Array Int %s)", v.idx()))
		c0 := v.rd(st.snap, "CLOCK", "0")
		v.assume("true", fmt.Sprintf("(and (%s %s %s) (%s %s %s))", v.cmpOp("<=", true), v.idxLit(0), c0, v.cmpOp("<", true), c0, v.idxLit(1<<62)))
	}
	env := v.exprEnv(fr, st, "requires of "+con.Key)
	for _, c := range con.Requires {
		t, err := env.EvalBool(c.Text)
		if err != nil {
			v.specError(c, err)
			continue
		}
		v.assume("true", t)
	}
	for _, a := range con.Apply {
		aenv := v.exprEnv(fr, st, "apply in "+con.Key)
		t, err := v.applyLemma(aenv, a.Text)
		if err != nil {
			v.specError(a, err)
			continue
		}
		v.assume("true", t)
	}
	for _, g := range con.GhostEntry {
		genv := v.exprEnv(fr, st, "ghost_entry of "+con.Key)
		genv.old = fr.oldSnap
		if err := v.ghostAssign(genv, st, g.Text); err != nil {
			v.specError(g, err)
		}
	}
	preLen := len(v.script)
	entryAddr := map[string]TV{}
	for k, x := range st.addr {
		entryAddr[k] = x
	}
	exits := v.execBody(fr, st)
	// post-conditions at every normal exit
	var reaches []Term
	sawRecovered := false
	for _, ex := range exits {
		if ex.panics {
			continue
		}
		reaches = append(reaches, ex.st.reach)
		if os.Getenv("GOVC_DEADEXITS") != "" && v.quiet == 0 {
			// diagnostic (not part of the registered checks): is this exit reachable under the assumptions?
			v.obls = append(v.obls, &Obligation{Name: fmt.Sprintf("%s#exitreach.%d", v.curFnKey, len(reaches)), Kind: "cover", Fn: v.curFnKey,
				Text: "diagnostic: this exit is reachable", Reach: "true", Goal: fmt.Sprintf("(not %s)", ex.st.reach), ScriptLen: len(v.script), Expect: "sat"})
		}
		vars := map[string]TV{}
		for k, x := range fr.params {
			vars[k] = x
		}
		bindResultNames(vars, fn.Signature, ex.results)
		penv := &ExprEnv{v: v, vars: vars, addr: entryAddr, snap: ex.st.snap, old: fr.oldSnap, reach: ex.st.reach, what: "ensures of " + con.Key}
		if fn.Pkg != nil {
			penv.pkg = fn.Pkg.Pkg
		}
		for _, g := range con.GhostSet {
			if err := v.ghostAssign(penv, ex.st, g.Text); err != nil {
				v.specError(g, err)
			}
		}
		clauses := con.Ensures
		kind := "post"
		if ex.recovered {
			clauses = con.EnsuresRecovered
			kind = "post.recovered"
			sawRecovered = true
		}
		for i, c := range clauses {
			t, err := penv.EvalBool(c.Text)
			if err != nil {
				v.specError(c, err)
				continue
			}
			lbl := c.Name
			if lbl == "" {
				lbl = fmt.Sprint(i + 1)
			}
			v.oblige(kind, lbl, fmt.Sprintf("%s:%d", shortFile(c.File), c.Line), c.Text, ex.st.reach, t)
			// later clauses at this exit may rely on earlier ones (each is proved under its
			// predecessors: together they prove the conjunction)
			v.assume(ex.st.reach, t)
		}
		if con.HasMod {
			v.frameCheck(fr, ex.st, con, vars, penv.pkg)
		}
	}
	for _, g := range con.GhostAfter {
		if v.ghostAfterHits[g.Name] == 0 && v.quiet == 0 {
			v.specError(g, fmt.Errorf("ghost_after %s matches no call of this function", g.Name))
		}
	}
	if len(con.EnsuresRecovered) > 0 && !sawRecovered && v.quiet == 0 {
		// vacuity guard: clauses about the state after a recovered panic, but no call in the body is
		// declared may_panic, so no recovered exit exists and the clauses were never checked
		v.specError(con.EnsuresRecovered[0], fmt.Errorf("ensures_recovered is never checked: no callee of this function is declared may_panic (no recovered exit)"))
	}
	for _, lk := range con.Atomic2 {
		n := 0
		if v.sections != nil {
			n = v.sections[lk]
		}
		n += len(v.serialGroups[lk])
		goal := "true"
		if n > 1 {
			goal = "false"
		}
		if v.quiet == 0 {
			v.obls = append(v.obls, &Obligation{Name: v.curFnKey + "#atomic." + lk, Kind: "atomic", Fn: v.curFnKey,
				Text: fmt.Sprintf("the operation is one atomic step w.r.t. lock %s: it enters %d critical section(s) of it without a serializing lock; its contract is proved sequentially, so with more than one section other threads may interleave between them", lk, n),
				Reach: "true", Goal: goal, ScriptLen: len(v.script), Expect: "unsat"})
		}
	}
	// smoke: the function can return (the requires and the assumed contracts are not
	// contradictory). Expected sat (or unknown); unsat = vacuous.
	if v.quiet == 0 {
		goal := "false"
		if len(reaches) > 0 {
			goal = "(not (or " + strings.Join(reaches, " ") + " false))"
		}
		_ = preLen
		o := &Obligation{Name: v.curFnKey + "#smoke", Kind: "smoke", Fn: v.curFnKey, Text: "some exit is reachable under the assumptions (vacuity guard)", Reach: "true", Goal: goal, ScriptLen: len(v.script), Expect: "sat"}
		v.obls = append(v.obls, o)
	}
	if len(con.Focus) > 0 && v.quiet == 0 {
		// thin contract: keep the obligations of the named clauses, the vacuity guards and the binding obligations
		var kept []*Obligation
		hits := map[string]int{}
		dropped := 0
		for _, o := range v.obls {
			// loop invariants are assumed at the loop head, so they are always claimed (an unproved invariant would make
			// the claimed clauses vacuous)
			keep := o.Kind == "smoke" || o.Kind == "cover" || o.Kind == "spec" || strings.HasPrefix(o.Kind, "inv.")
			for _, f := range con.Focus {
				if strings.HasSuffix(o.Name, "."+f) || strings.Contains(o.Name, "."+f+".") {
					keep = true
					hits[f]++
				}
			}
			if keep {
				kept = append(kept, o)
			} else {
				dropped++
			}
		}
		v.obls = kept
		v.note("%s: thin contract (focus %s): %d other obligations of this function (no-panic, frame, other call sites) are generated but not claimed", v.curFnKey, strings.Join(con.Focus, " "), dropped)
		for _, f := range con.Focus {
			if hits[f] == 0 {
				v.specError(Clause{File: con.File, Line: con.Line, Text: "focus " + f}, fmt.Errorf("focus %s matches no obligation of this function", f))
			}
		}
	}
	return v
}

func shortKey(k string) string {
	k = strings.TrimPrefix(k, "github.com/lindb/lindb/")
	return k
}

// frameCheck: every heap array changed by the function is unchanged outside the
// locations named in modifies.
func (v *FV) frameCheck(fr *Frame, st *State, con *Contract, vars map[string]TV, pkg *types.Package) {
	for _, m := range con.Modifies {
		if m == "*" {
			return
		}
	}
	locs := append([]string(nil), con.Modifies...)
	if sd, _, ok := v.sharedDecl(); ok && !con.Unshared {
		// shared locations change under interference: they are outside the frame discipline
		for _, l := range sd.Locations {
			locs = append(locs, "self."+l)
		}
	}
	allowed := v.allowedLocs(fr, st, locs, con, vars, pkg)
	var names []string
	for a := range v.arrays {
		names = append(names, a)
	}
	sort.Strings(names)
	k := v.declare("frame_k", "Int")
	for _, a := range names {
		if strings.HasPrefix(a, "RV_") || strings.HasSuffix(a, "$n") || a == "TOP" || a == "CALLS" || a == "ARGNN" || a == "ARGV" || a == "LOCKED" || a == "CLOCK" || a == "STAMP" || a == "RESNIL" {
			continue // ghost iteration state of range loops; arrays of objects allocated here
		}
		// locals allocated by the function itself are > N0 and invisible to the caller
		now := v.heapGet(st.snap, a)
		was := v.heapGet(fr.oldSnap, a)
		if now == was {
			continue
		}
		var excl []string
		whole := false
		for _, r := range allowed[a] {
			if r == "*" {
				whole = true
			}
			if strings.HasPrefix(r, "?") {
				parts := strings.SplitN(r[1:], "\x00", 2)
				excl = append(excl, fmt.Sprintf("(not (and %s (= %s %s)))", parts[0], k, parts[1]))
				continue
			}
			excl = append(excl, fmt.Sprintf("(not (= %s %s))", k, r))
		}
		if whole {
			continue
		}
		// sub-objects (negative references) belong to their root object: those of objects allocated
		// by this function are as invisible to the caller as the objects themselves
		v.pre("ref_root", "(declare-fun ref_root (Int) Int)")
		v.pre("ref_root_ax", "(assert (forall ((r Int)) (! (=> (>= r 0) (= (ref_root r) r)) :pattern ((ref_root r)))))")
		hyp := fmt.Sprintf("(and (<= %s %s) (<= (ref_root %s) %s) %s)", k, v.n0, k, v.n0, strings.Join(excl, " "))
		if v.regions {
			hyp = fmt.Sprintf("(and (not %s) %s)", v.isNew(k), strings.Join(excl, " "))
		}
		goal := fmt.Sprintf("(=> %s (= (select %s %s) (select %s %s)))", hyp, now, k, was, k)
		v.oblige("frame", a, "", "nothing outside modifies changed in "+a, st.reach, goal)
	}
}

// VerifyLemma proves a contract-level lemma (pure formula) from the axioms it names.
func (e *Engine) VerifyLemma(ax *Axiom) *FV {
	mode := ModeMath
	if ax.Arith == "bv" {
		mode = ModeBV
	}
	v := e.newFV(nil, nil, mode)
	v.con = &Contract{Uses: ax.Uses, Opaque2: ax.Opaque}
	v.curFnKey = "lemma." + ax.Name
	defer func() {
		if r := recover(); r != nil {
			if ee, ok := r.(*exprError); ok {
				v.oblige("engine", "", "", "lemma could not be translated: "+ee.msg, "true", "false")
				return
			}
			panic(r)
		}
	}()
	uses := ax.Uses
	if uses == nil {
		uses = []string{}
	}
	if len(ax.Uses) == 1 && ax.Uses[0] == "*" {
		uses = nil
	}
	v.assertAxioms(uses)
	// an arbitrary heap, so that (loop-free) Go functions can be used in the statement
	env := &ExprEnv{v: v, vars: map[string]TV{}, pkg: v.pkgOf(ax.Pkg), what: "lemma " + ax.Name,
		snap: &Snapshot{ep: v.newEpoch(0), over: map[string]Term{}}}
	v.noTriggers = true
	t, err := env.EvalBool(ax.Text)
	v.noTriggers = false
	if err != nil {
		v.specError(Clause{File: ax.File, Line: ax.Line, Text: ax.Text}, err)
		return v
	}
	v.oblige("lemma", ax.Name, fmt.Sprintf("%s:%d", shortFile(ax.File), ax.Line), ax.Text, "true", t)
	if len(v.axioms) > 0 {
		// vacuity guard: the axioms and lemmas this proof rests on must not be contradictory
		v.obls = append(v.obls, &Obligation{Name: v.curFnKey + "#smoke", Kind: "smoke", Fn: v.curFnKey,
			Text: "the hypotheses of the lemma are satisfiable (vacuity guard)", Reach: "true", Goal: "false", ScriptLen: len(v.script), Expect: "sat", Lemma: true})
	}
	return v
}

func (v *FV) buildScript(o *Obligation) string {
	var b strings.Builder
	b.WriteString("(set-logic ALL)\n")
	for _, l := range v.preamble {
		b.WriteString(l)
		b.WriteByte('\n')
	}
	var body strings.Builder
	var live map[string]bool
	if v.con != nil && v.con.Paths {
		live = reachAncestors(v.script[:o.ScriptLen], o.Reach)
	}
	for _, l := range v.script[:o.ScriptLen] {
		if live != nil && strings.HasPrefix(l, "(assert (=> ") {
			g := l[len("(assert (=> "):]
			if k := strings.IndexAny(g, " )"); k > 0 {
				g = g[:k]
			}
			if reachName.MatchString(g) && !live[g] {
				continue // a fact about a path this obligation is not on (path mode)
			}
		}
		body.WriteString(l)
		body.WriteByte('\n')
	}
	fmt.Fprintf(&body, "(assert %s)\n(assert (not %s))\n", o.Reach, o.Goal)
	axs := v.relevantAxioms(body.String())
	if o.Lemma {
		axs = v.axioms
	}
	for _, ax := range axs {
		fmt.Fprintf(&b, "(assert %s) ; axiom %s\n", ax.term, ax.name)
	}
	b.WriteString(body.String())
	b.WriteString("(check-sat)\n")
	if len(v.inputs) > 0 && o.Expect == "unsat" {
		fmt.Fprintf(&b, "(get-value (%s))\n", strings.Join(v.inputs, " "))
	}
	return b.String()
}

type axiomTerm struct{ name, term, file string }

var spSym = regexp.MustCompile(`sp_[A-Za-z0-9_]+`)

// relevantAxioms: axioms that (transitively) share a spec-function symbol with text.
func (v *FV) relevantAxioms(text string) []axiomTerm {
	syms := map[string]bool{}
	for _, s := range spSym.FindAllString(text, -1) {
		syms[s] = true
	}
	used := make([]bool, len(v.axioms))
	var out []axiomTerm
	// definitions of spec functions in the preamble
	defs := map[string][]string{}
	for _, l := range v.preamble {
		if strings.HasPrefix(l, "(define-fun sp_") {
			f := strings.Fields(l)
			defs[f[1]] = spSym.FindAllString(l, -1)
		}
	}
	for changed := true; changed; {
		changed = false
		for d, ss := range defs {
			if syms[d] {
				for _, s := range ss {
					if !syms[s] {
						syms[s] = true
						changed = true
					}
				}
			}
		}
		for i, ax := range v.axioms {
			if used[i] {
				continue
			}
			as := spSym.FindAllString(ax.term, -1)
			hit := false
			for _, s := range as {
				if syms[s] {
					hit = true
					break
				}
			}
			if hit {
				used[i] = true
				changed = true
				out = append(out, ax)
				for _, s := range as {
					syms[s] = true
				}
			}
		}
	}
	v.axMu.Lock()
	for _, ax := range out {
		v.trusted["axiom "+ax.name+" ("+ax.file+")"] = true
	}
	v.axMu.Unlock()
	return out
}

// VerifyRefinement: the contract of a concrete method implies the contract of the
// interface method it implements (same parameter names are assumed).
func (e *Engine) VerifyRefinement(fn *ssa.Function, impl, iface *Contract, ifaceT types.Type) *FV {
	v := e.newFV(fn, impl, modeOf(impl))
	v.curFnKey = shortKey(impl.Key)
	defer func() {
		if r := recover(); r != nil {
			if ee, ok := r.(*exprError); ok {
				v.oblige("engine", "", "", "refinement could not be generated: "+ee.msg, "true", "false")
				return
			}
			panic(r)
		}
	}()
	v.assertAxioms(nil)
	st := &State{reach: "true", snap: &Snapshot{ep: v.newEpoch(0), over: map[string]Term{}}, env: map[string]TV{}, addr: map[string]TV{}, held: map[string]string{}}
	vars := map[string]TV{}
	for i, p := range fn.Params {
		s := v.sortOf(p.Type())
		name := fmt.Sprintf("in_%s", mangle(p.Name()))
		v.emit(fmt.Sprintf("(declare-const %s %s)", name, s))
		tv := TV{T: name, Ty: p.Type(), Sort: s}
		if v.isRefLike(p.Type()) {
			v.assume("true", fmt.Sprintf("(and (>= %s 0) (<= %s %s))", name, name, v.n0))
		} else {
			v.assume("true", v.typeFacts(name, p.Type()))
		}
		vars[p.Name()] = tv
		if i == 0 {
			vars["self"] = tv
			v.assume("true", fmt.Sprintf("(and (> %s 0) (= (dyn_type %s) %s))", name, name, v.typeID(p.Type())))
		}
	}
	// interface parameter names may differ: bind by position as well
	if m, ok := ifaceMethod(ifaceT, fn.Name()); ok {
		sig := m.Type().(*types.Signature)
		for i := 0; i < sig.Params().Len() && i+1 < len(fn.Params); i++ {
			n := sig.Params().At(i).Name()
			if i < len(iface.ParamName) {
				n = iface.ParamName[i]
			}
			if n != "" && n != "_" {
				if _, clash := vars[n]; !clash {
					vars[n] = vars[fn.Params[i+1].Name()]
				}
			}
			vars[fmt.Sprintf("arg%d", i)] = vars[fn.Params[i+1].Name()]
		}
	}
	pkg := fn.Pkg.Pkg
	ipkg := v.pkgOf(iface.Pkg)
	if ipkg == nil {
		ipkg = pkg
	}
	ifaceVars := map[string]TV{}
	for k, x := range vars {
		ifaceVars[k] = x
	}
	if self, ok := vars["self"]; ok {
		ifaceVars["self"] = TV{T: self.T, Ty: ifaceT, Sort: "Int"}
	}
	pre := st.snap.clone()
	ienv := &ExprEnv{v: v, vars: ifaceVars, snap: st.snap, pkg: ipkg, what: "interface contract " + iface.Key}
	for _, c := range iface.Requires {
		t, err := ienv.EvalBool(c.Text)
		if err != nil {
			v.specError(c, err)
			continue
		}
		v.assume("true", t)
	}
	menv := &ExprEnv{v: v, vars: vars, snap: st.snap, pkg: pkg, what: "contract " + impl.Key}
	short := shortKey(iface.Key)
	for i, c := range impl.Requires {
		t, err := menv.EvalBool(c.Text)
		if err != nil {
			v.specError(c, err)
			continue
		}
		v.oblige("refine.pre", fmt.Sprint(i+1), fmt.Sprintf("%s:%d", shortFile(c.File), c.Line), "requires of "+short+" implies: "+c.Text, "true", t)
	}
	// post state: havoc what the implementation may modify
	if !impl.HasMod {
		// nothing modified
	} else {
		for _, m := range impl.Modifies {
			if m == "*" {
				v.havocAll(st.snap)
				continue
			}
			envM := &ExprEnv{v: v, vars: vars, snap: pre, pkg: pkg, what: "modifies"}
			if _, err := v.locWrite(envM, st, m, ""); err != nil {
				v.specError(Clause{File: impl.File, Line: impl.Line, Text: "modifies " + m}, err)
			}
		}
	}
	results := v.freshResultsFor(st, fn.Signature.Results(), "res", impl.Fresh)
	bindResultNames(vars, fn.Signature, results)
	bindResultNames(ifaceVars, fn.Signature, results)
	menv2 := &ExprEnv{v: v, vars: vars, snap: st.snap, old: pre, pkg: pkg, what: "contract " + impl.Key}
	for _, c := range impl.Ensures {
		t, err := menv2.EvalBool(c.Text)
		if err != nil {
			v.specError(c, err)
			continue
		}
		v.assume("true", t)
	}
	ienv2 := &ExprEnv{v: v, vars: ifaceVars, snap: st.snap, old: pre, pkg: ipkg, what: "interface contract " + iface.Key}
	for i, c := range iface.Ensures {
		t, err := ienv2.EvalBool(c.Text)
		if err != nil {
			v.specError(c, err)
			continue
		}
		v.oblige("refine.post", fmt.Sprint(i+1), fmt.Sprintf("%s:%d", shortFile(c.File), c.Line), "ensures of "+short+": "+c.Text, "true", t)
	}
	// frame inclusion: whatever the implementation modifies must be allowed by the interface
	if impl.HasMod && len(impl.Modifies) > 0 && !iface.HasMod {
		v.oblige("refine.frame", "", "", "implementation modifies state but the interface contract declares none", "true", "false")
	}
	return v
}

func ifaceMethod(t types.Type, name string) (*types.Func, bool) {
	it, ok := t.Underlying().(*types.Interface)
	if !ok {
		return nil, false
	}
	for i := 0; i < it.NumMethods(); i++ {
		if it.Method(i).Name() == name {
			return it.Method(i), true
		}
	}
	return nil, false
}

// ghostAssign performs "x.f = expr" on a ghost field at a function exit.
func (v *FV) ghostAssign(env *ExprEnv, st *State, text string) (err error) {
	defer func() {
		if r := recover(); r != nil {
			if ee, ok := r.(*exprError); ok {
				err = fmt.Errorf("ghost_assign %s: %s", text, ee.msg)
				return
			}
			panic(r)
		}
	}()
	i := strings.Index(text, "=")
	if i < 0 {
		return fmt.Errorf("ghost_assign needs 'x.f = expr'")
	}
	lhs, rhs := strings.TrimSpace(text[:i]), strings.TrimSpace(text[i+1:])
	le, perr := parseContractExpr(lhs)
	if perr != nil {
		return perr
	}
	sel, ok := le.(*ast.SelectorExpr)
	if !ok {
		return fmt.Errorf("ghost_assign: left side must be x.f")
	}
	env.snap = st.snap
	base := env.eval(sel.X)
	g := v.findGhost(types.Unalias(base.Ty), sel.Sel.Name)
	if g == nil {
		return fmt.Errorf("ghost_assign: %s is not a ghost field", sel.Sel.Name)
	}
	gty := v.parseType(g.Type, v.pkgOf(g.Pkg))
	re, perr := parseContractExpr(rhs)
	if perr != nil {
		return perr
	}
	val := env.coerce(env.eval(re), gty, v.ghostSort(gty))
	arr := "G_" + mangle(shortPkg(g.Owner)+"_"+g.Name)
	v.regArray(arr, fmt.Sprintf("(Array Int %s)", v.ghostSort(gty)))
	if v.eng.db.Stable[g.Owner+"."+g.Name] {
		// a ghost field declared stable: no code writes it, it keeps its value across calls (only ghost assignments change it)
		v.stableArrays[arr] = true
	}
	v.wr(st.snap, arr, base.T, val.T)
	return nil
}

// allowedLocs: which (array, ref) pairs the listed locations cover (evaluated in the
// function's entry state).
func (v *FV) allowedLocs(fr *Frame, st *State, locs []string, con *Contract, vars map[string]TV, pkg *types.Package) map[string][]Term {
	allowed := map[string][]Term{}
	scratch := st.clone()
	saveQ := v.quiet
	v.quiet++
	for _, m := range locs {
		env := &ExprEnv{v: v, vars: vars, snap: fr.oldSnap, pkg: pkg, what: "modifies"}
		ts, err := v.locWrite(env, scratch, m, "")
		if err != nil {
			v.quiet = saveQ
			v.specError(Clause{File: con.File, Line: con.Line, Text: "modifies " + m}, err)
			v.quiet++
			continue
		}
		for _, t := range ts {
			if t.all {
				allowed[t.arr] = append(allowed[t.arr], "*")
			} else if t.cond != "" {
				allowed[t.arr] = append(allowed[t.arr], "?"+t.cond+"\x00"+t.ref)
			} else {
				allowed[t.arr] = append(allowed[t.arr], t.ref)
			}
		}
	}
	v.quiet = saveQ
	return allowed
}

// loopFrameTerm: every array in arrs is unchanged since function entry outside allowed.
func (v *FV) loopFrameTerm(fr *Frame, st *State, arrs []string, allowed map[string][]Term) Term {
	var parts []string
	for _, a := range arrs {
		if strings.HasPrefix(a, "RV_") || strings.HasSuffix(a, "$n") || a == "TOP" || a == "CALLS" || a == "ARGNN" || a == "ARGV" || a == "LOCKED" || a == "CLOCK" || a == "STAMP" || a == "RESNIL" {
			continue
		}
		now := v.heapGet(st.snap, a)
		was := v.heapGet(fr.oldSnap, a)
		if now == was {
			continue
		}
		var excl []string
		whole := false
		for _, r := range allowed[a] {
			if r == "*" {
				whole = true
			}
			if strings.HasPrefix(r, "?") {
				parts := strings.SplitN(r[1:], "\x00", 2)
				excl = append(excl, fmt.Sprintf("(not (and %s (= k %s)))", parts[0], parts[1]))
				continue
			}
			excl = append(excl, fmt.Sprintf("(not (= k %s))", r))
		}
		if whole {
			continue
		}
		hyp := "(and (<= k N0!) " + strings.Join(excl, " ") + ")"
		if v.regions {
			hyp = "(and (not " + v.isNew("k") + ") " + strings.Join(excl, " ") + ")"
		}
		parts = append(parts, fmt.Sprintf("(forall ((k Int)) (! (=> %s (= (select %s k) (select %s k))) :pattern ((select %s k))))", hyp, now, was, now))
	}
	if len(parts) == 0 {
		return "true"
	}
	return "(and " + strings.Join(parts, " ") + ")"
}


// applyLemma instantiates a lemma (proved as its own obligation) or an axiom with explicit
// arguments: its leading universal binders are replaced by the given terms.
func (v *FV) applyLemma(env *ExprEnv, text string) (t Term, err error) {
	defer func() {
		if r := recover(); r != nil {
			if ee, ok := r.(*exprError); ok {
				err = fmt.Errorf("%s: %s", text, ee.msg)
				return
			}
			panic(r)
		}
	}()
	ex, perr := parseContractExpr(text)
	if perr != nil {
		return "", perr
	}
	call, ok := ex.(*ast.CallExpr)
	if !ok {
		return "", fmt.Errorf("apply needs lemma(args...)")
	}
	id, ok := call.Fun.(*ast.Ident)
	if !ok {
		return "", fmt.Errorf("apply needs a lemma name")
	}
	var ax *Axiom
	for _, a := range v.eng.db.Axioms {
		if a.Name == id.Name {
			ax = a
		}
	}
	if ax == nil {
		return "", fmt.Errorf("unknown lemma %s", id.Name)
	}
	if (ax.Arith == "math") != (v.mode == ModeMath) && ax.Arith != "any" {
		return "", fmt.Errorf("lemma %s is stated in the other integer mode", ax.Name)
	}
	var args []TV
	for _, a := range call.Args {
		args = append(args, env.eval(a))
	}
	body, perr := parseContractExpr(ax.Text)
	if perr != nil {
		return "", perr
	}
	lenv := &ExprEnv{v: v, vars: map[string]TV{}, pkg: v.pkgOf(ax.Pkg), snap: env.snap, what: "apply " + ax.Name}
	if lenv.pkg == nil {
		lenv.pkg = env.pkg
	}
	ai := 0
	bind := func(name *ast.Ident, tyLit ast.Expr) {
		if ai >= len(args) {
			fail("too few arguments for lemma %s", ax.Name)
		}
		lit, ok := tyLit.(*ast.BasicLit)
		if !ok {
			fail("lemma %s: binder type must be a string literal", ax.Name)
		}
		ts, _ := strconv.Unquote(lit.Value)
		bty := v.parseType(ts, lenv.pkg)
		if bty == nil {
			fail("unknown type %s", ts)
		}
		bs := v.sortOf(bty)
		if _, isMap := bty.(*types.Map); isMap {
			bs = v.ghostSort(bty)
		}
		x := env.coerce(args[ai], bty, bs)
		if x.Sort != bs {
			fail("argument %d of %s has sort %s, want %s", ai+1, ax.Name, x.Sort, bs)
		}
		lenv.vars[name.Name] = TV{T: x.T, Ty: bty, Sort: bs}
		ai++
	}
	for {
		c, ok := body.(*ast.CallExpr)
		if !ok {
			break
		}
		f, ok := c.Fun.(*ast.Ident)
		if !ok {
			break
		}
		if f.Name == "all" && len(c.Args) == 3 {
			bind(c.Args[0].(*ast.Ident), c.Args[1])
			body = c.Args[2]
			continue
		}
		if f.Name == "allof" {
			for i := 0; i+1 < len(c.Args); i += 2 {
				bind(c.Args[i].(*ast.Ident), c.Args[i+1])
			}
			body = c.Args[len(c.Args)-1]
			continue
		}
		if f.Name == "trigger" && len(c.Args) >= 2 {
			body = c.Args[len(c.Args)-1]
			continue
		}
		break
	}
	if ai != len(args) {
		fail("lemma %s takes %d arguments", ax.Name, ai)
	}
	if ax.Lemma {
		v.trusted["lemma "+ax.Name+" (proved as its own obligation, applied explicitly)"] = true
	}
	r := lenv.coerce(lenv.eval(body), nil, "")
	return r.T, nil
}


var reachName = regexp.MustCompile(`^(f\d+_(c|nc|R)_\d+|f\d+_Rret|dcond|dskip)!\d+$`)
var reachTok = regexp.MustCompile(`(f\d+_(c|nc|R)_\d+|f\d+_Rret|dcond|dskip)!\d+`)

// reachAncestors: the reach conditions that the given reach condition is built from.
func reachAncestors(script []string, reach Term) map[string]bool {
	defs := map[string][]string{}
	for _, l := range script {
		if strings.HasPrefix(l, "(define-fun f") || strings.HasPrefix(l, "(define-fun d") {
			f := strings.Fields(l)
			if len(f) > 1 && reachName.MatchString(f[1]) {
				defs[f[1]] = reachTok.FindAllString(l[len("(define-fun ")+len(f[1]):], -1)
			}
		}
	}
	live := map[string]bool{}
	var add func(n string)
	add = func(n string) {
		if live[n] {
			return
		}
		live[n] = true
		for _, d := range defs[n] {
			add(d)
		}
	}
	for _, n := range reachTok.FindAllString(reach, -1) {
		add(n)
	}
	return live
}
