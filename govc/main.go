package main

import (
	"encoding/json"
	"flag"
	"fmt"
	"go/token"
	"go/types"
	"os"
	"os/exec"
	"path/filepath"
	"sort"
	"strings"
	"sync"
	"time"

	"golang.org/x/tools/go/packages"
	"golang.org/x/tools/go/ssa"
	"golang.org/x/tools/go/ssa/ssautil"
)

const modulePath = "github.com/lindb/lindb"

type KnownFinding struct {
	Property   string `json:"property"`
	Obligation string `json:"obligation"`
	What       string `json:"what"`
	Status     string `json:"status"` // "open" or "fixed"
	Commit     string `json:"commit,omitempty"`
}

func main() {
	if len(os.Args) < 2 {
		fmt.Fprintln(os.Stderr, "usage: govc check -prop Cxx [-tier quick|thorough] | govc list")
		os.Exit(2)
	}
	switch os.Args[1] {
	case "check":
		os.Exit(cmdCheck(os.Args[2:]))
	case "list":
		os.Exit(cmdList(os.Args[2:]))
	case "ssa":
		// govc ssa <pkgpath> <function key substring>
		eng := &Engine{repo: "/repo"}
		if err := eng.load([]string{os.Args[2]}); err != nil {
			fmt.Println(err)
			os.Exit(2)
		}
		for k, fn := range eng.fnByKey {
			if strings.Contains(k, os.Args[3]) {
				fn.WriteTo(os.Stdout)
				for _, af := range fn.AnonFuncs {
					af.WriteTo(os.Stdout)
				}
			}
		}
		os.Exit(0)
	default:
		fmt.Fprintln(os.Stderr, "unknown command")
		os.Exit(2)
	}
}

func findSpecFiles(repo string) []string {
	var out []string
	filepath.Walk(repo, func(p string, info os.FileInfo, err error) error {
		if err != nil {
			return nil
		}
		if info.IsDir() && (info.Name() == ".git" || info.Name() == "node_modules" || info.Name() == "web") {
			return filepath.SkipDir
		}
		if !info.IsDir() && info.Name() == "zz_verif_spec.go" {
			out = append(out, p)
		}
		return nil
	})
	sort.Strings(out)
	return out
}

func loadSpecs(repo, verifDir string) (*SpecDB, error) {
	db := NewSpecDB()
	if err := db.LoadDir(filepath.Join(verifDir, "contracts", "external")); err != nil {
		return nil, err
	}
	for _, f := range findSpecFiles(repo) {
		rel, _ := filepath.Rel(repo, filepath.Dir(f))
		pkg := modulePath
		if rel != "." {
			pkg = modulePath + "/" + filepath.ToSlash(rel)
		}
		if err := db.LoadFile(f, pkg); err != nil {
			return nil, err
		}
	}
	return db, nil
}

func hasProp(props []string, p string) bool {
	for _, x := range props {
		if x == p {
			return true
		}
	}
	return false
}

func cmdList(args []string) int {
	fs := flag.NewFlagSet("list", flag.ExitOnError)
	repo := fs.String("repo", "/repo", "")
	verif := fs.String("verif", "/verif", "")
	fs.Parse(args)
	db, err := loadSpecs(*repo, *verif)
	if err != nil {
		fmt.Fprintln(os.Stderr, err)
		return 2
	}
	var keys []string
	for k := range db.Contracts {
		keys = append(keys, k)
	}
	sort.Strings(keys)
	for _, k := range keys {
		c := db.Contracts[k]
		kind := "verified"
		if c.Extern {
			kind = "extern"
		} else if c.Trusted {
			kind = "assumed"
		}
		fmt.Printf("%-9s %-20s %s\n", kind, strings.Join(c.Props, ","), k)
	}
	return 0
}

func (e *Engine) load(pkgPaths []string) error {
	cfg := &packages.Config{Mode: packages.LoadAllSyntax, Dir: e.repo, BuildFlags: []string{"-tags=verif"},
		Env: append(os.Environ(), "GOFLAGS=-mod=mod", "GOPROXY=off", "GOSUMDB=off", "GOTOOLCHAIN=local")}
	pkgs, err := packages.Load(cfg, pkgPaths...)
	if err != nil {
		return err
	}
	nerr := 0
	for _, p := range pkgs {
		for _, pe := range p.Errors {
			fmt.Fprintln(os.Stderr, "load error:", pe)
			nerr++
		}
	}
	if nerr > 0 {
		return fmt.Errorf("%d package load errors", nerr)
	}
	prog, _ := ssautil.AllPackages(pkgs, ssa.InstantiateGenerics|ssa.GlobalDebug)
	prog.Build()
	e.prog = prog
	e.pkgs = pkgs
	if len(pkgs) > 0 {
		e.fset = pkgs[0].Fset
	}
	e.fnByKey = map[string]*ssa.Function{}
	for _, sp := range prog.AllPackages() {
		if !strings.HasPrefix(sp.Pkg.Path(), modulePath) {
			continue
		}
		for _, m := range sp.Members {
			switch m := m.(type) {
			case *ssa.Function:
				e.fnByKey[fnKey(m)] = m
				e.addAnon(m)
			case *ssa.Type:
				for _, t := range []types.Type{m.Type(), types.NewPointer(m.Type())} {
					ms := prog.MethodSets.MethodSet(t)
					for i := 0; i < ms.Len(); i++ {
						if fn := prog.MethodValue(ms.At(i)); fn != nil && fn.Synthetic == "" {
							e.fnByKey[fnKey(fn)] = fn
							e.addAnon(fn)
						}
					}
				}
			}
		}
	}
	return nil
}

type fnReport struct {
	Key         string   `json:"function"`
	Arith       string   `json:"arith"`
	Obligations int      `json:"obligations"`
	Discharged  int      `json:"discharged"`
	Notes       []string `json:"notes,omitempty"`
}

func cmdCheck(args []string) int {
	fs := flag.NewFlagSet("check", flag.ExitOnError)
	prop := fs.String("prop", "", "property id")
	tier := fs.String("tier", envOr("VERIF_TIER", "quick"), "quick|thorough")
	repo := fs.String("repo", "/repo", "")
	verif := fs.String("verif", "/verif", "")
	only := fs.String("only", "", "verify only functions whose key contains this")
	dump := fs.String("dump", "", "dump SMT scripts of failed obligations to this dir")
	verbose := fs.Bool("v", false, "")
	dumpAll := fs.String("dumpall", "", "dump the SMT scripts of all obligations to this dir")
	noEvidence := fs.Bool("no-evidence", false, "")
	replayOut := fs.String("replay-dir", "", "write replay files here instead of <verif>/replay/<prop>")
	fs.Parse(args)
	if *prop == "" {
		fmt.Fprintln(os.Stderr, "-prop required")
		return 2
	}
	start := time.Now()
	seed := 0
	fmt.Sscanf(os.Getenv("VERIF_SEED"), "%d", &seed)
	db, err := loadSpecs(*repo, *verif)
	if err != nil {
		fmt.Fprintln(os.Stderr, "spec error:", err)
		return 2
	}
	eng := &Engine{db: db, repo: *repo, timeoutS: 30, verbose: *verbose, dumpDir: *dump}
	if *tier == "thorough" {
		eng.timeoutS = 120
		eng.allSolv = true
	}
	// contracts of this property
	var cons []*Contract
	pkgSet := map[string]bool{}
	for _, c := range db.Contracts {
		if hasProp(c.Props, *prop) && !c.Extern {
			if *only != "" && !strings.Contains(c.Key, *only) {
				continue
			}
			cons = append(cons, c)
			pkgSet[c.Pkg] = true
		}
	}
	var lemmas []*Axiom
	for _, ax := range db.Axioms {
		if ax.Lemma && hasProp(ax.Props, *prop) {
			if *only != "" && !strings.Contains(ax.Name, *only) {
				continue
			}
			lemmas = append(lemmas, ax)
			pkgSet[ax.Pkg] = true
		}
	}
	sort.Slice(cons, func(i, j int) bool { return cons[i].Key < cons[j].Key })
	if len(cons) == 0 && len(lemmas) == 0 {
		fmt.Fprintf(os.Stderr, "no contracts for property %s\n", *prop)
		return 2
	}
	var pkgPaths []string
	for p := range pkgSet {
		if strings.HasPrefix(p, modulePath) {
			pkgPaths = append(pkgPaths, p)
		}
	}
	sort.Strings(pkgPaths)
	if err := eng.load(pkgPaths); err != nil {
		fmt.Fprintln(os.Stderr, "cannot load packages (not a property violation):", err)
		return 2
	}
	loadS := time.Since(start).Seconds()

	type job struct {
		v *FV
		o *Obligation
	}
	var fvs []*FV
	var jobs []job
	var unbound []string
	var reports []*fnReport
	fvReport := map[*FV]*fnReport{}
	for _, c := range cons {
		if c.Trusted {
			continue
		}
		baseKey := c.Key
		if i := strings.Index(baseKey, "#"); i > 0 {
			baseKey = baseKey[:i] // "Func#view": a second contract of the same function, verified on its own
		}
		fn := eng.fnByKey[baseKey]
		if fn == nil || fn.Blocks == nil {
			unbound = append(unbound, c.Key)
			continue
		}
		v := eng.VerifyFunction(fn, c)
		fvs = append(fvs, v)
		r := &fnReport{Key: shortKey(c.Key), Arith: map[Mode]string{ModeBV: "bit-vector (exact machine integers)", ModeMath: "mathematical integers with overflow/conversion obligations"}[v.mode]}
		fvReport[v] = r
		reports = append(reports, r)
		for _, o := range v.obls {
			jobs = append(jobs, job{v, o})
		}
		// refinement of interface contracts
		if fn.Signature.Recv() != nil {
			rt := fn.Signature.Recv().Type()
			for _, ic := range db.Contracts {
				if ic.Extern || ic.NoRefine || !strings.HasSuffix(ic.Key, "."+fn.Name()) || ic == c || strings.Contains(c.Key, "#") {
					continue
				}
				it := eng.namedType(strings.TrimSuffix(ic.Key, "."+fn.Name()))
				if it == nil {
					continue
				}
				iface, ok := it.Underlying().(*types.Interface)
				if !ok || !types.Implements(rt, iface) {
					continue
				}
				rv := eng.VerifyRefinement(fn, c, ic, it)
				fvs = append(fvs, rv)
				fvReport[rv] = r
				for _, o := range rv.obls {
					jobs = append(jobs, job{rv, o})
				}
			}
		}
	}
	for _, ax := range lemmas {
		v := eng.VerifyLemma(ax)
		fvs = append(fvs, v)
		r := &fnReport{Key: "lemma " + ax.Name, Arith: ax.Arith}
		fvReport[v] = r
		reports = append(reports, r)
		for _, o := range v.obls {
			jobs = append(jobs, job{v, o})
		}
	}
	genS := time.Since(start).Seconds() - loadS
	// solve
	var wg sync.WaitGroup
	sem := make(chan struct{}, 14)
	for _, j := range jobs {
		wg.Add(1)
		sem <- struct{}{}
		go func(j job) {
			defer wg.Done()
			defer func() { <-sem }()
			j.o.Script = j.v.buildScript(j.o)
			if *dumpAll != "" {
				os.MkdirAll(*dumpAll, 0o755)
				os.WriteFile(filepath.Join(*dumpAll, mangle(j.o.Name)+".smt2"), []byte(j.o.Script), 0o644)
				if l := lightScript(j.o.Script); l != "" {
					os.WriteFile(filepath.Join(*dumpAll, mangle(j.o.Name)+".light.smt2"), []byte(l), 0o644)
				}
				if l := slicedScript(j.o.Script, 2); l != "" {
					os.WriteFile(filepath.Join(*dumpAll, mangle(j.o.Name)+".sliced.smt2"), []byte(l), 0o644)
				}
			}
			if j.o.Kind == "atomic" {
				st := "unsat"
				if j.o.Goal == "false" {
					st = "not-atomic"
				}
				j.o.Res = SolverResult{Status: st, Solver: "lock-section analysis"}
				return
			}
			if j.o.Goal == "false" && j.o.Reach == "true" && (j.o.Kind == "spec" || j.o.Kind == "engine") {
				j.o.Res = SolverResult{Status: "spec-error", Solver: "none"}
				return
			}
			to := eng.timeoutS
			if j.v.con != nil && j.v.con.TimeoutS > to {
				to = j.v.con.TimeoutS
			}
			if j.o.Expect == "sat" {
				to = 3
			}
			light := ""
			if j.o.Expect == "unsat" {
				// the weakened variants take part in both tiers: their unsat is a valid refutation, and some
				// obligations are only decided by them
				light = lightScript(j.o.Script)
			}
			j.o.Res = SolveLight(j.o.Script, light, to, eng.allSolv && j.o.Expect == "unsat")
			if j.o.Kind == "cover" && j.o.Res.Status == "unsat" && j.o.Before != nil {
				// unreachable after the contract: was it reachable before?
				b := j.o.Before
				b.Script = j.v.buildScript(b)
				b.Res = Solve(b.Script, 3, false)
				if b.Res.Status == "unsat" {
					j.o.Res.Status = "dead-code" // legitimately unreachable, not caused by the contract
				}
			}
		}(j)
	}
	wg.Wait()

	known := loadKnown(filepath.Join(*verif, "known_findings.json"))
	replayDir := filepath.Join(*verif, "replay", *prop)
	if *replayOut != "" {
		replayDir = *replayOut
	}
	os.RemoveAll(replayDir)
	total, discharged := 0, 0
	violations := 0
	solverTime := 0.0
	bySolver := map[string]int{}
	var samples []interface{}
	var failed []*Obligation
	var knownHit []string
	knownObl := 0 // failed obligations that are listed as open known findings (bounded stand-ins are counted apart)
	trusted := map[string]bool{}
	var notes []string
	for _, j := range jobs {
		o := j.o
		r := fvReport[j.v]
		solverTime += o.Res.Time
		ok := false
		if o.Expect == "sat" {
			// vacuity guard: must not be unsat
			ok = o.Res.Status != "unsat"
			if !ok {
				o.Text += " — VACUOUS: assumptions are contradictory"
			}
			if o.Res.Status == "sat" || o.Res.Status == "unknown" || o.Res.Status == "timeout" || o.Res.Status == "dead-code" {
				ok = true
			}
		} else {
			ok = o.Res.Status == "unsat"
		}
		total++
		r.Obligations++
		if ok {
			discharged++
			r.Discharged++
			bySolver[o.Res.Solver]++
			if len(samples) < 4 && o.Kind == "post" {
				samples = append(samples, map[string]interface{}{"obligation": o.Name, "clause": o.Text, "status": o.Res.Status, "solver": o.Res.Solver, "time_s": round3(o.Res.Time), "smt_goal": truncate(o.Goal, 400)})
			}
			if *verbose {
				fmt.Printf("  ok   %-70s %s %.2fs\n", o.Name, o.Res.Solver, o.Res.Time)
			}
			continue
		}
		failed = append(failed, o)
		if *dump != "" {
			os.MkdirAll(*dump, 0o755)
			os.WriteFile(filepath.Join(*dump, mangle(o.Name)+".smt2"), []byte(o.Script), 0o644)
		}
	}
	for _, v := range fvs {
		for t := range v.trusted {
			trusted[t] = true
		}
		for _, n := range v.notes {
			if *verbose {
				fmt.Println("  note:", n)
			}
			notes = append(notes, n)
			fvReport[v].Notes = append(fvReport[v].Notes, n)
		}
	}
	// report
	for _, sv := range eng.stableViolations() {
		violations++
		path := writeReplay(replayDir, "stable."+mangle(sv), "a field declared stable (written only during construction) is written elsewhere: "+sv+"\n")
		fmt.Printf("VIOLATION property=%s replay=%s obligation=stable:%s no-failing-input-found\n", *prop, path, strings.Fields(sv)[0])
	}
	for _, k := range unbound {
		violations++
		path := writeReplay(replayDir, "unbound."+mangle(k), fmt.Sprintf("contract %s is not bound to any function in the current tree (function removed or renamed): the property can no longer be decided for it\n", k))
		fmt.Printf("VIOLATION property=%s replay=%s obligation=%s#unbound no-failing-input-found\n", *prop, path, shortKey(k))
	}
	for _, o := range failed {
		if kf := matchKnown(known, *prop, o.Name); kf != nil {
			fmt.Printf("KNOWN-FINDING: property=%s %s: %s\n", *prop, o.Name, kf.What)
			knownHit = append(knownHit, o.Name)
			knownObl++
			continue
		}
		violations++
		var fv *FV
		for _, j := range jobs {
			if j.o == o {
				fv = j.v
			}
		}
		path, reproduced := eng.replay(fv, o, replayDir)
		suffix := ""
		if !reproduced {
			suffix = " no-failing-input-found"
		}
		fmt.Printf("VIOLATION property=%s replay=%s obligation=%s status=%s%s\n", *prop, path, o.Name, o.Res.Status, suffix)
		if *verbose {
			fmt.Printf("    %s  [%s]\n    %v\n", o.Text, o.Pos, o.Res.Details)
		}
	}
	bounded := runBounded(*verif, *prop, *tier)
	for _, bs := range bounded {
		if ok, _ := bs["ok"].(bool); !ok {
			if kf := matchKnown(known, *prop, fmt.Sprintf("bounded.%v", bs["name"])); kf != nil {
				fmt.Printf("KNOWN-FINDING: property=%s bounded.%v: %s\n", *prop, bs["name"], kf.What)
				knownHit = append(knownHit, fmt.Sprintf("bounded.%v", bs["name"]))
				bs["known_finding"] = true
				continue
			}
			fmt.Printf("ASSUMPTION-CHECK-FAILED property=%s bounded stand-in %v failed: %v\n", *prop, bs["name"], bs["output"])
			violations++
			path := writeReplay(replayDir, "bounded."+mangle(fmt.Sprint(bs["name"])), fmt.Sprintf("bounded validation %v failed\n%v\n", bs["name"], bs["output"]))
			fmt.Printf("VIOLATION property=%s replay=%s obligation=bounded.%v no-failing-input-found\n", *prop, path, bs["name"])
		}
	}
	if *verbose {
		for _, n := range notes {
			fmt.Println("  note:", n)
		}
	}
	wall := time.Since(start).Seconds()
	fmt.Printf("property %s: %d obligations, %d discharged, %d known findings, %d violations; load %.1fs gen %.1fs solver %.1fs wall %.1fs\n",
		*prop, total, discharged, len(knownHit), violations, loadS, genS, solverTime, wall)
	if !*noEvidence && *only == "" {
		var tb []string
		for t := range trusted {
			tb = append(tb, t)
		}
		sort.Strings(tb)
		tb = append([]string{"govc VC generator and memory model (/verif/govc)", "go/packages + go/types + go/ssa (x/tools v0.29.0)", "SMT solvers z3 5.1.0, z3 4.8.12, cvc5 1.0 (first definitive answer wins; thorough tier runs all and reports conflicts)"}, tb...)
		if len(samples) == 0 && len(jobs) > 0 {
			o := jobs[0].o
			samples = append(samples, map[string]interface{}{"obligation": o.Name, "clause": o.Text, "status": o.Res.Status})
		}
		sort.Strings(notes)
		ev := map[string]interface{}{
			"property_id": *prop, "tier": *tier, "seed": seed, "level": "proof",
			"coverage": map[string]interface{}{
				// obligations: the obligations this run claims as proved. An obligation that fails and is listed
				// as an open known finding is not claimed: it is counted under obligations_generated and named
				// under known_findings_hit, never under discharged.
				"obligations": total - knownObl, "discharged": discharged,
				"obligations_generated":    total,
				"open_known_findings":      len(knownHit),
				"checker_cmd":              fmt.Sprintf("/verif/bin/govc check -prop %s -tier %s", *prop, *tier),
				"trusted_base":             tb,
				"samples":                  samples,
				"functions_under_contract": reports,
				"by_solver":                bySolver,
				"solver_time_s":            round3(solverTime),
				"known_findings_hit":       knownHit,
				"unbound_contracts":        unbound,
				"engine_notes":             notes,
				"spec_files":               relFiles(db.Files),
				"bounded_standins":         bounded,
			},
			"assumptions": assumptionsFor(*prop, db, tb),
			"wall_s":      round3(wall),
			"violations":  violations,
		}
		os.MkdirAll(filepath.Join(*verif, "evidence"), 0o755)
		b, _ := json.MarshalIndent(ev, "", " ")
		os.WriteFile(filepath.Join(*verif, "evidence", *prop+".json"), b, 0o644)
	}
	if violations > 0 {
		return 1
	}
	return 0
}

func relFiles(fs []string) []string {
	var r []string
	for _, f := range fs {
		r = append(r, shortFile(f))
	}
	return r
}

func round3(x float64) float64 { return float64(int(x*1000)) / 1000 }

func envOr(k, d string) string {
	if v := os.Getenv(k); v != "" {
		return v
	}
	return d
}

func loadKnown(path string) []KnownFinding {
	b, err := os.ReadFile(path)
	if err != nil {
		return nil
	}
	var f struct {
		Findings []KnownFinding `json:"findings"`
	}
	if json.Unmarshal(b, &f) != nil {
		return nil
	}
	return f.Findings
}

func matchKnown(k []KnownFinding, prop, obl string) *KnownFinding {
	for i := range k {
		if k[i].Property == prop && k[i].Obligation == obl && k[i].Status != "fixed" {
			return &k[i]
		}
	}
	return nil
}

func writeReplay(dir, name, content string) string {
	os.MkdirAll(dir, 0o755)
	p := filepath.Join(dir, name+".txt")
	os.WriteFile(p, []byte(content), 0o644)
	return p
}

// assumptionsFor: the per-property assumption notes kept next to the contracts.
func assumptionsFor(prop string, db *SpecDB, tb []string) []string {
	var out []string
	for _, c := range db.Contracts {
		if hasProp(c.Props, prop) {
			for _, n := range c.Notes {
				out = append(out, shortKey(c.Key)+": "+n)
			}
			if c.Trusted && !c.Extern {
				out = append(out, "contract of "+shortKey(c.Key)+" is assumed, its body is not verified")
			}
		}
	}
	sort.Strings(out)
	out = append(out, "termination is not proved unless a decreases clause is listed; partial correctness otherwise",
		"logging, metrics and wall-clock reads are treated as having no effect on verified state",
		"memory exhaustion and goroutine scheduling outside declared locks are not modelled")
	return out
}

func (e *Engine) namedType(key string) types.Type {
	i := strings.LastIndex(key, ".")
	if i < 0 {
		return nil
	}
	for _, p := range e.prog.AllPackages() {
		if p.Pkg.Path() == key[:i] {
			if o := p.Pkg.Scope().Lookup(key[i+1:]); o != nil {
				if tn, ok := o.(*types.TypeName); ok {
					return tn.Type()
				}
			}
		}
	}
	return nil
}

// runBounded runs the bounded stand-ins registered for a property. They are labelled
// bounded in the evidence and never counted as discharged obligations.
func runBounded(verif, prop, tier string) []map[string]interface{} {
	b, err := os.ReadFile(filepath.Join(verif, "bounded", "registry.json"))
	if err != nil {
		return nil
	}
	var reg map[string][]struct {
		Name, Dir, Bound string
		Cmd              []string
		StandsInFor      string `json:"stands_in_for"`
	}
	if json.Unmarshal(b, &reg) != nil {
		return nil
	}
	var out []map[string]interface{}
	for _, e := range reg[prop] {
		cmd := exec.Command(e.Cmd[0], e.Cmd[1:]...)
		cmd.Dir = e.Dir
		cmd.Env = append(os.Environ(), "GOFLAGS=-mod=mod", "GOPROXY=off", "GOSUMDB=off", "GOTOOLCHAIN=local", "VERIF_TIER="+tier)
		t0 := time.Now()
		o, err := cmd.CombinedOutput()
		out = append(out, map[string]interface{}{"name": e.Name, "label": "bounded (not a proof, not counted in discharged)", "bound": e.Bound, "stands_in_for": e.StandsInFor,
			"cmd": strings.Join(e.Cmd, " "), "ok": err == nil, "output": truncate(strings.TrimSpace(string(o)), 1500), "wall_s": round3(time.Since(t0).Seconds())})
	}
	return out
}

func (e *Engine) addAnon(fn *ssa.Function) {
	for _, a := range fn.AnonFuncs {
		e.fnByKey[fnKey(a)] = a
		e.addAnon(a)
	}
}

// stableViolations: stores to fields declared stable that are not on an object allocated
// in the same function (i.e. not construction).
func (e *Engine) stableViolations() []string {
	var out []string
	for _, sp := range e.prog.AllPackages() {
		if !strings.HasPrefix(sp.Pkg.Path(), modulePath) {
			continue
		}
		var fns []*ssa.Function
		for k, fn := range e.fnByKey {
			if strings.HasPrefix(k, sp.Pkg.Path()+".") && fn.Pkg == sp {
				fns = append(fns, fn)
			}
		}
		for _, fn := range fns {
			for _, b := range fn.Blocks {
				for _, in := range b.Instrs {
					st, ok := in.(*ssa.Store)
					if !ok {
						continue
					}
					fa, ok := st.Addr.(*ssa.FieldAddr)
					if !ok {
						continue
					}
					stT := fa.X.Type().Underlying().(*types.Pointer).Elem()
					su, ok := stT.Underlying().(*types.Struct)
					if !ok {
						continue
					}
					key := typeKey(stT) + "." + su.Field(fa.Field).Name()
					if !e.db.Stable[key] {
						continue
					}
					base := fa.X
					for {
						if inner, ok := base.(*ssa.FieldAddr); ok {
							base = inner.X
							continue
						}
						break
					}
					if _, fresh := base.(*ssa.Alloc); fresh {
						continue
					}
					if ld, ok := base.(*ssa.UnOp); ok && ld.Op == token.MUL {
						// the object is held in a local variable (captured by a closure) that is
						// only ever assigned objects allocated in this function: still construction
						if cell, ok := ld.X.(*ssa.Alloc); ok && cell.Referrers() != nil {
							onlyNew := true
							n := 0
							for _, r := range *cell.Referrers() {
								if s2, ok := r.(*ssa.Store); ok && s2.Addr == cell {
									n++
									if _, isNew := s2.Val.(*ssa.Alloc); !isNew {
										onlyNew = false
									}
								}
							}
							if onlyNew && n > 0 {
								continue
							}
						}
					}
					out = append(out, fmt.Sprintf("%s written in %s at %s", shortKey(key), shortKey(fnKey(fn)), posStr(e.fset, st.Pos())))
				}
			}
		}
	}
	sort.Strings(out)
	return out
}
