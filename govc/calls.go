package main

import (
	"os"
	"fmt"
	"go/ast"
	"go/token"
	"go/types"
	"strings"

	"golang.org/x/tools/go/ssa"
)

const maxInlineDepth = 5

// resolveCallee finds the contract and/or SSA function for a call.
func (v *FV) resolveCallee(fr *Frame, cc *ssa.CallCommon) (*Contract, *ssa.Function) {
	db := v.eng.db
	if cc.IsInvoke() {
		// interface method: contract on Iface.Method
		keys := []string{typeKey(cc.Value.Type()) + "." + cc.Method.Name()}
		if rn := recvNamed(cc.Method); rn != "" {
			keys = append(keys, rn+"."+cc.Method.Name())
		}
		for _, k := range keys {
			if c, ok := db.Contracts[k]; ok {
				return c, nil
			}
		}
		// statically known dynamic type?
		if mi, ok := cc.Value.(*ssa.MakeInterface); ok {
			if fn := v.eng.prog.LookupMethod(mi.X.Type(), cc.Method.Pkg(), cc.Method.Name()); fn != nil {
				return db.Contracts[fnKey(fn)], fn
			}
		}
		return nil, nil
	}
	switch f := cc.Value.(type) {
	case *ssa.Function:
		k := fnKey(f)
		if c, ok := db.Contracts[k]; ok {
			return c, f
		}
		// generic instantiation: try origin
		if o := f.Origin(); o != nil {
			if c, ok := db.Contracts[fnKey(o)]; ok {
				return c, f
			}
		}
		return nil, f
	case *ssa.MakeClosure:
		return nil, f.Fn.(*ssa.Function)
	case *ssa.UnOp:
		// call through a package-level function variable (test seam): contract on the variable
		if fa, ok := f.X.(*ssa.FieldAddr); ok {
			stT := fa.X.Type().Underlying().(*types.Pointer).Elem()
			key := typeKey(stT) + "." + stT.Underlying().(*types.Struct).Field(fa.Field).Name()
			if c, ok := db.Contracts[key]; ok {
				v.trusted["function-valued field "+shortKey(key)+" is assumed to satisfy its declared contract"] = true
				fr.fieldFnOwner[cc.Value] = fa.X
				return c, nil
			}
		}
		if g, ok := f.X.(*ssa.Global); ok && g.Pkg != nil {
			if c, ok := db.Contracts[g.Pkg.Pkg.Path()+"."+g.Name()]; ok {
				v.trusted["function variable "+shortKey(g.Pkg.Pkg.Path())+"."+g.Name()+" is assumed to satisfy its declared contract"] = true
				return c, nil
			}
		}
	}
	if ci, ok := fr.closures[cc.Value]; ok {
		return nil, ci.fn
	}
	if p, ok := cc.Value.(*ssa.Parameter); ok && fr.isTop {
		// a callback passed by the caller: an assumed client contract "func F@param"
		if c, ok := db.Contracts[fnKey(fr.fn)+"@"+p.Name()]; ok {
			v.trusted["callback parameter "+p.Name()+" of "+shortKey(fnKey(fr.fn))+" is assumed to satisfy its declared client contract"] = true
			return c, nil
		}
	}
	return nil, nil
}

func recvNamed(m *types.Func) string {
	sig, ok := m.Type().(*types.Signature)
	if !ok || sig.Recv() == nil {
		return ""
	}
	return typeKey(sig.Recv().Type())
}

func (v *FV) inlinable(fn *ssa.Function) bool {
	if fn == nil || fn.Blocks == nil {
		return false
	}
	if fn.Pkg == nil && fn.Parent() == nil {
		// synthetic wrappers / instantiated generics of other packages
		if fn.Synthetic == "" {
			return false
		}
	}
	p := ""
	if fn.Pkg != nil {
		p = fn.Pkg.Pkg.Path()
	} else if fn.Parent() != nil && fn.Parent().Pkg != nil {
		p = fn.Parent().Pkg.Pkg.Path()
	} else if fn.Object() != nil && fn.Object().Pkg() != nil {
		p = fn.Object().Pkg().Path()
	}
	if !strings.HasPrefix(p, "github.com/lindb/lindb") && fn.Parent() == nil {
		return false
	}
	for _, s := range v.inlineStack {
		if s == fnKey(fn) {
			return false
		}
	}
	return len(findLoops(fn)) == 0 && len(fn.Blocks) <= 60
}

var noEffectPrefixes = []string{
	"github.com/lindb/common/pkg/logger.",
	"github.com/lindb/lindb/pkg/logger.",
	"github.com/lindb/lindb/metrics.",
	"github.com/lindb/lindb/internal/linmetric.",
	"github.com/lindb/common/pkg/ltoml.",
	// flatbuffers builder calls only touch the builder they are given
	"github.com/google/flatbuffers/go.Builder.",
	"github.com/lindb/common/proto/gen/v1/flatMetricsV1.",
	"fmt.Sprintf", "fmt.Errorf", "fmt.Sprint", "fmt.Println", "fmt.Printf", "fmt.Fprintf",
	"errors.New", "errors.Is", "errors.As", "errors.Unwrap",
	"time.Now", "time.Since", "time.Duration.", "time.Time.",
	"strconv.", "strings.", "path/filepath.Join", "path.Join", "path/filepath.Base",
	"runtime/debug.", "runtime.",
	"go.uber.org/zap.", "go.uber.org/zap/zapcore.",
	"math.",
	"(*sync.Cond).Broadcast", "sync.Cond.Broadcast", "sync.Cond.Signal", "sync.NewCond",
	"github.com/lindb/common/pkg/timeutil.Now",
	"github.com/google/uuid.",
	"github.com/lindb/common/pkg/timeutil.FormatTimestamp",
	"github.com/lindb/lindb/pkg/timeutil.FormatTimestamp",
}

func (v *FV) calleeName(cc *ssa.CallCommon, callee *ssa.Function) string {
	if cc.IsInvoke() {
		return typeKey(cc.Value.Type()) + "." + cc.Method.Name()
	}
	if callee != nil {
		return fnKey(callee)
	}
	return cc.Value.String()
}

func (v *FV) isNoEffect(cc *ssa.CallCommon, callee *ssa.Function) bool {
	name := v.calleeName(cc, callee)
	for _, p := range noEffectPrefixes {
		if strings.HasPrefix(name, p) {
			v.trusted["no-effect external: "+p+"*"] = true
			return true
		}
	}
	// logger / metric interface methods
	if cc.IsInvoke() {
		tk := typeKey(cc.Value.Type())
		if strings.Contains(tk, "logger.Logger") || strings.Contains(tk, "linmetric.") || strings.HasSuffix(tk, ".error") || tk == "error" {
			v.trusted["no-effect interface: "+tk] = true
			return true
		}
	} else if callee != nil && callee.Signature.Recv() != nil {
		tk := typeKey(callee.Signature.Recv().Type())
		if strings.Contains(tk, "linmetric.") || strings.Contains(tk, "logger.") {
			v.trusted["no-effect receiver: "+tk] = true
			return true
		}
	}
	return false
}

// lockCall classifies sync.Mutex / RWMutex operations.
func (v *FV) lockCall(cc *ssa.CallCommon) string {
	var name string
	if cc.IsInvoke() {
		if typeKey(cc.Value.Type()) == "sync.Locker" {
			return strings.ToLower(cc.Method.Name())
		}
		return ""
	}
	f, ok := cc.Value.(*ssa.Function)
	if !ok {
		return ""
	}
	name = fnKey(f)
	switch name {
	case "sync.Mutex.Lock", "sync.RWMutex.Lock":
		return "lock"
	case "sync.RWMutex.RLock":
		return "rlock"
	case "sync.Mutex.Unlock", "sync.RWMutex.Unlock":
		return "unlock"
	case "sync.RWMutex.RUnlock":
		return "runlock"
	case "sync.Mutex.TryLock", "sync.RWMutex.TryLock":
		return "trylock"
	}
	return ""
}

// lockDeclFor: for a Lock/Unlock call whose receiver is FieldAddr(x, f) (or a load of a
// pointer field), find the lock declaration and the owner object term.
func (v *FV) lockDeclFor(fr *Frame, cc *ssa.CallCommon) (*LockDecl, Term, types.Type) {
	if len(cc.Args) == 0 && !cc.IsInvoke() {
		return nil, "", nil
	}
	var recv ssa.Value
	if cc.IsInvoke() {
		recv = cc.Value
	} else {
		recv = cc.Args[0]
	}
	// unwrap: FieldAddr(x, f)  |  UnOp(*, FieldAddr(x,f)) | MakeInterface(...)
	for {
		switch r := recv.(type) {
		case *ssa.MakeInterface:
			recv = r.X
			continue
		case *ssa.UnOp:
			recv = r.X
			continue
		case *ssa.ChangeInterface:
			recv = r.X
			continue
		}
		break
	}
	fa, ok := recv.(*ssa.FieldAddr)
	if !ok {
		return nil, "", nil
	}
	stT := fa.X.Type().Underlying().(*types.Pointer).Elem()
	u := stT.Underlying().(*types.Struct)
	key := typeKey(stT) + "." + u.Field(fa.Field).Name()
	ld := v.eng.db.Locks[key]
	if ld == nil {
		return nil, "", nil
	}
	return ld, v.canonOwner(fr, fa.X), stT
}

// canonOwner: the term of a lock owner / protected object. A receiver that is captured by a closure lives in a
// cell that is written once (at entry); every load of it yields a new name for the same value - use the stored value.
func (v *FV) canonOwner(fr *Frame, x ssa.Value) Term {
	if u, ok := x.(*ssa.UnOp); ok && u.Op == token.MUL {
		if al, ok := u.X.(*ssa.Alloc); ok && cellIsFinal(al) && al.Referrers() != nil {
			for _, r := range *al.Referrers() {
				if s, ok := r.(*ssa.Store); ok && s.Addr == al {
					if _, known := fr.vals[s.Val]; known {
						return v.val(fr, s.Val).T
					}
					if _, isParam := s.Val.(*ssa.Parameter); isParam {
						return v.val(fr, s.Val).T
					}
				}
			}
		}
	}
	return v.val(fr, x).T
}

func (v *FV) lockHasDecl(fr *Frame, cc *ssa.CallCommon) bool {
	ld, _, _ := v.lockDeclFor(fr, cc)
	return ld != nil
}

func (v *FV) execLock(fr *Frame, st *State, cc *ssa.CallCommon, kind string, pos string) {
	ld, owner, stT := v.lockDeclFor(fr, cc)
	if ld == nil {
		v.note("lock %s without declaration: treated sequentially (no interference modelled)", v.calleeName(cc, nil))
		return
	}
	ownerTV := TV{T: owner, Ty: types.NewPointer(stT), Sort: "Int"}
	env := v.exprEnv(fr, st, "lock invariant "+ld.Owner+"."+ld.Field)
	env.vars = map[string]TV{"self": ownerTV}
	env.lookup = nil
	env.addr = nil
	if p := v.pkgOf(ld.Pkg); p != nil {
		env.pkg = p
	}
	hk := ld.Owner + "." + ld.Field + "@" + owner
	if os.Getenv("GOVC_DEBUGLOCK") != "" {
		fmt.Fprintln(os.Stderr, "execLock", kind, hk, pos)
	}
	if kind == "lock" || kind == "rlock" {
		v.countSection(fr, st, ld, owner)
	}
	if (kind == "lock" || kind == "rlock") && len(ld.Serializes) > 0 && v.quiet == 0 {
		if v.serialAcq == nil {
			v.serialAcq = map[string]string{}
		}
		v.serialAcq[hk] = pos
	}
	switch kind {
	case "lock":
		st.held[hk] = "w"
	case "rlock":
		st.held[hk] = "r"
	case "unlock", "runlock":
		delete(st.held, hk)
	}
	// semantic record of the locks this thread holds (for locked(x.mu) in contracts)
	v.regArray("LOCKED", "(Array Int Bool)")
	lk := v.lockKey(ld.Owner, ld.Field, owner)
	if kind == "lock" || kind == "rlock" {
		v.wr(st.snap, "LOCKED", lk, "true")
	} else {
		v.wr(st.snap, "LOCKED", lk, "false")
	}
	if ld.Invariant == "" {
		return
	}
	switch kind {
	case "lock", "rlock":
		// havoc protected fields of the owner object
		for _, f := range ld.Protects {
			if err := v.havocLoc(env, st, "self."+f); err != nil {
				v.specError(Clause{File: ld.File, Line: ld.Line, Text: "protects " + f}, err)
			}
		}
		if ld.Invariant != "" {
			env.snap = st.snap
			t, err := env.EvalBool(ld.Invariant)
			if err != nil {
				v.specError(Clause{File: ld.File, Line: ld.Line, Text: ld.Invariant}, err)
				return
			}
			v.assume(st.reach, t)
		}
	case "unlock", "runlock":
		if ld.Invariant != "" {
			t, err := env.EvalBool(ld.Invariant)
			if err != nil {
				v.specError(Clause{File: ld.File, Line: ld.Line, Text: ld.Invariant}, err)
				return
			}
			v.oblige("lockinv", mangle(ld.Field), pos, "lock invariant at release: "+ld.Invariant, st.reach, t)
		}
	}
}

// havocLoc gives the location named by expr (x.f, x.f.g, x.f[*]) an arbitrary value.
func (v *FV) havocLoc(env *ExprEnv, st *State, text string) error {
	_, err := v.locWrite(env, st, text, "")
	return err
}

// locWrite resolves a modifies-location. It havocs the location (val == "") and returns
// the list of (array, index term) pairs that were touched.
type touched struct {
	arr  string
	ref  Term
	all  bool // whole second-level array (slice contents / map)
	cond Term // "" or guard of a conditional location ("loc when cond")
}

func (v *FV) locWrite(env *ExprEnv, st *State, text string, _ string) (res []touched, err error) {
	defer func() {
		if r := recover(); r != nil {
			if ee, ok := r.(*exprError); ok {
				err = fmt.Errorf("modifies %s: %s", text, ee.msg)
				return
			}
			panic(r)
		}
	}()
	text = strings.TrimSpace(text)
	if i := strings.Index(text, " when "); i > 0 {
		condT, cerr := env.EvalBool(strings.TrimSpace(text[i+6:]))
		if cerr != nil {
			return nil, cerr
		}
		if condT == "false" {
			return nil, nil // the guard cannot hold in this program (e.g. a type that is not loaded)
		}
		before := map[string]Term{}
		for k, x := range st.snap.over {
			before[k] = x
		}
		beforeSnap := st.snap.clone()
		ts, err := v.locWrite(env, st, text[:i], "")
		if err != nil {
			return nil, err
		}
		for k := range ts {
			for _, a := range []string{ts[k].arr, ts[k].arr + "$n"} {
				now := v.heapGet(st.snap, a)
				was := v.heapGet(beforeSnap, a)
				if now != was {
					st.snap.over[a] = v.define(a, v.arrSort(a), fmt.Sprintf("(ite %s %s %s)", condT, now, was))
				}
			}
			ts[k].cond = condT
		}
		return ts, nil
	}
	if strings.HasPrefix(text, "any(") {
		// any(T).f.g : field f.g of every object of type T (whole heap array)
		depth, end := 0, -1
		for i := 3; i < len(text); i++ {
			if text[i] == '(' {
				depth++
			} else if text[i] == ')' {
				depth--
				if depth == 0 {
					end = i
					break
				}
			}
		}
		if end < 0 || end+2 > len(text) || text[end+1] != '.' {
			return nil, fmt.Errorf("any(T).field expected")
		}
		ty := v.parseType(strings.TrimSpace(text[4:end]), env.pkg)
		if ty == nil {
			return nil, fmt.Errorf("any(): unknown type %s", text[4:end])
		}
		dummy := v.declare("anyobj", "Int")
		saved, had := env.vars["any_obj__"]
		env.vars["any_obj__"] = TV{T: dummy, Ty: ty, Sort: "Int"}
		ts, err := v.locWrite(env, st, "any_obj__."+text[end+2:], "")
		if had {
			env.vars["any_obj__"] = saved
		} else {
			delete(env.vars, "any_obj__")
		}
		if err != nil {
			return nil, err
		}
		for i := range ts {
			for _, a := range []string{ts[i].arr, ts[i].arr + "$n"} {
				fresh := v.declare("hvall_"+a, v.arrSort(a))
				st.snap.over[a] = fresh
			}
			ts[i].all = true
		}
		return ts, nil
	}
	contents := false
	if strings.HasSuffix(text, "[*]") {
		contents = true
		text = strings.TrimSuffix(text, "[*]")
	}
	e, perr := parseContractExpr(text)
	if perr != nil {
		return nil, perr
	}
	// location expressions are evaluated in env.snap (the pre-state); writes go to st.snap
	if contents {
		x := env.eval(e)
		switch {
		case x.Sort == "Slice":
			sl := x.Ty.Underlying().(*types.Slice)
			arr := v.elemArray(sl.Elem())
			ref := v.arrOf(x.T)
			fresh := v.declare("hv_"+arr, fmt.Sprintf("(Array %s %s)", v.idx(), v.sortOf(sl.Elem())))
			v.wr(st.snap, arr, ref, fresh)
			return []touched{{arr: arr, ref: ref}}, nil
		case x.Sort == "Int":
			if m, ok := x.Ty.Underlying().(*types.Map); ok {
				dom, val := v.mapArrays(m)
				for _, a := range []string{dom, val} {
					s := v.arrSort(a)
					inner := strings.TrimSuffix(strings.TrimPrefix(s, "(Array Int "), ")")
					fresh := v.declare("hv_"+a, inner)
					v.wr(st.snap, a, x.T, fresh)
				}
				ml := v.mapLenArray()
				fl := v.declare("hv_mlen", v.idx())
				v.assume(st.reach, fmt.Sprintf("(%s %s %s)", v.cmpOp(">=", true), fl, v.idxLit(0)))
				v.wr(st.snap, ml, x.T, fl)
				return []touched{{arr: dom, ref: x.T}, {arr: val, ref: x.T}, {arr: ml, ref: x.T}}, nil
			}
		}
		return nil, fmt.Errorf("[*] on unsupported value")
	}
	sel, ok := e.(*ast.SelectorExpr)
	if !ok {
		if se, ok := e.(*ast.StarExpr); ok {
			x := env.eval(se.X)
			pt := x.Ty.Underlying().(*types.Pointer)
			return v.havocObject(st, pt.Elem(), x.T), nil
		}
		return nil, fmt.Errorf("modifies location must be x.f, *x or x.f[*]")
	}
	base := env.eval(sel.X)
	return v.havocField(env, st, base, sel.Sel.Name)
}

func (v *FV) havocObject(st *State, ty types.Type, ref Term) []touched {
	var res []touched
	if su, ok := ty.Underlying().(*types.Struct); ok {
		for i := 0; i < su.NumFields(); i++ {
			ft := su.Field(i).Type()
			if _, isS := ft.Underlying().(*types.Struct); isS {
				res = append(res, v.havocObject(st, ft, v.subRef(ty, i, ref))...)
				continue
			}
			arr, _ := v.fieldArray(ty, i)
			fresh := v.declare("hv_"+arr, v.sortOf(ft))
			v.assume(st.reach, v.typeFacts(fresh, ft))
			v.wr(st.snap, arr, ref, fresh)
			res = append(res, touched{arr: arr, ref: ref})
		}
		// ghost fields
		for _, g := range v.eng.db.Ghosts[typeKey(ty)] {
			res = append(res, v.havocGhost(st, g, ref)...)
		}
		return res
	}
	arr := v.cellArray(ty)
	fresh := v.declare("hv_"+arr, v.sortOf(ty))
	v.assume(st.reach, v.typeFacts(fresh, ty))
	v.wr(st.snap, arr, ref, fresh)
	return []touched{{arr: arr, ref: ref}}
}

func (v *FV) havocGhost(st *State, g *GhostField, ref Term) []touched {
	gty := v.parseType(g.Type, v.pkgOf(g.Pkg))
	if gty == nil {
		return nil
	}
	arr := "G_" + mangle(shortPkg(g.Owner)+"_"+g.Name)
	gs := v.ghostSort(gty)
	v.regArray(arr, fmt.Sprintf("(Array Int %s)", gs))
	if v.eng.db.Stable[g.Owner+"."+g.Name] {
		// a ghost field declared stable: no code writes it, it keeps its value across calls (only ghost assignments change it)
		v.stableArrays[arr] = true
	}
	fresh := v.declare("hv_"+arr, gs)
	if _, isMap := gty.(*types.Map); !isMap {
		v.assume(st.reach, v.typeFacts(fresh, gty))
	}
	v.wr(st.snap, arr, ref, fresh)
	return []touched{{arr: arr, ref: ref}}
}

func (v *FV) havocField(env *ExprEnv, st *State, base TV, name string) ([]touched, error) {
	ty := types.Unalias(base.Ty)
	name = v.aliasName(ty, name)
	if g := v.findGhost(ty, name); g != nil {
		return v.havocGhost(st, g, base.T), nil
	}
	p, ok := ty.Underlying().(*types.Pointer)
	if !ok {
		return nil, fmt.Errorf("modifies: base of .%s is not a pointer (%v)", name, ty)
	}
	stT := p.Elem()
	su, ok := stT.Underlying().(*types.Struct)
	if !ok {
		return nil, fmt.Errorf("modifies: .%s on non-struct", name)
	}
	if l, isLoc := v.ptrLocs[base.T]; isLoc {
		// the pointer denotes a struct value held in a slice / array element: the field of that
		// value changes (write through), not a heap object of its own
		for i := 0; i < su.NumFields(); i++ {
			if su.Field(i).Name() == name {
				ft := su.Field(i).Type()
				fresh := v.declare("hv_elt_"+mangle(name), v.sortOf(ft))
				if v.isRefType(ft) {
					v.assume(st.reach, v.refOK(fresh))
				} else {
					v.assume(st.reach, v.typeFacts(fresh, ft))
				}
				v.store(st, &Loc{kind: 6, inner: l, st: stT, fi: i, ty: ft}, fresh)
				root := l
				for root.inner != nil {
					root = root.inner
				}
				return []touched{{arr: root.arr, ref: root.ref}}, nil
			}
		}
		return nil, fmt.Errorf("modifies: no field %s in %v", name, stT)
	}
	for i := 0; i < su.NumFields(); i++ {
		if su.Field(i).Name() == name {
			ft := su.Field(i).Type()
			if _, isS := ft.Underlying().(*types.Struct); isS {
				return v.havocObject(st, ft, v.subRef(stT, i, base.T)), nil
			}
			arr, _ := v.fieldArray(stT, i)
			fresh := v.declare("hv_"+arr, v.sortOf(ft))
			if v.isRefType(ft) {
				v.assume(st.reach, v.refOK(fresh))
			} else {
				v.assume(st.reach, v.typeFacts(fresh, ft))
			}
			v.wr(st.snap, arr, base.T, fresh)
			return []touched{{arr: arr, ref: base.T}}, nil
		}
	}
	return nil, fmt.Errorf("modifies: no field %s in %v", name, stT)
}

// modArrayNames: array names a modifies clause of a callee may touch (for loop havoc sets).
func (v *FV) modArrayNames(con *Contract, callee *ssa.Function, cc *ssa.CallCommon, loc string) []string {
	// evaluate in a scratch state to learn the arrays
	v.quiet++
	defer func() { v.quiet-- }()
	saveScript := len(v.script)
	st := &State{reach: "false", snap: &Snapshot{ep: v.newEpoch(0), over: map[string]Term{}}, env: map[string]TV{}, addr: map[string]TV{}, held: map[string]string{}}
	vars, pkg := v.contractVarsSymbolic(con, callee, cc)
	if vars == nil {
		v.script = v.script[:saveScript]
		return nil
	}
	env := &ExprEnv{v: v, vars: vars, snap: st.snap, pkg: pkg, what: "modifies"}
	res, err := v.locWrite(env, st, loc, "")
	v.script = v.script[:saveScript]
	if err != nil {
		return nil
	}
	var names []string
	for _, t := range res {
		names = append(names, t.arr)
	}
	return names
}

// contractVarsSymbolic: parameter variables with dummy terms (only types matter)
func (v *FV) contractVarsSymbolic(con *Contract, callee *ssa.Function, cc *ssa.CallCommon) (map[string]TV, *types.Package) {
	sig := cc.Signature()
	vars := map[string]TV{}
	var pkg *types.Package
	if callee != nil && callee.Pkg != nil {
		pkg = callee.Pkg.Pkg
	}
	if p := v.pkgOf(con.Pkg); p != nil {
		pkg = p
	}
	if cc.IsInvoke() {
		vars["self"] = TV{T: "0", Ty: cc.Value.Type(), Sort: "Int"}
		if cc.Method.Pkg() != nil && pkg == nil {
			pkg = cc.Method.Pkg()
		}
	} else if sig.Recv() != nil {
		rt := sig.Recv().Type()
		vars["self"] = TV{T: v.zero(rt), Ty: rt, Sort: v.sortOf(rt)}
		if n := sig.Recv().Name(); n != "" && n != "_" {
			vars[n] = vars["self"]
		}
	}
	for i := 0; i < sig.Params().Len(); i++ {
		p := sig.Params().At(i)
		n := p.Name()
		if i < len(con.ParamName) {
			n = con.ParamName[i]
		}
		if n == "" || n == "_" {
			n = fmt.Sprintf("arg%d", i)
		}
		vars[n] = TV{T: v.zero(p.Type()), Ty: p.Type(), Sort: v.sortOf(p.Type())}
	}
	return vars, pkg
}

// ---------- calls

func (v *FV) execCall(fr *Frame, st *State, in ssa.Value, cc *ssa.CallCommon) {
	pos := posStr(v.eng.fset, cc.Pos())
	if b, ok := cc.Value.(*ssa.Builtin); ok {
		v.builtin(fr, st, in, cc, b)
		return
	}
	var args []TV
	for _, a := range cc.Args {
		args = append(args, v.val(fr, a))
	}
	var recvTV TV
	if cc.IsInvoke() {
		recvTV = v.val(fr, cc.Value)
	}
	results := v.doCall(fr, st, cc, recvTV, args, pos)
	v.bindResults(fr, st, in, cc.Signature().Results(), results)
}

func (v *FV) bindResults(fr *Frame, st *State, in ssa.Value, rt *types.Tuple, results []TV) {
	if in == nil {
		return
	}
	switch rt.Len() {
	case 0:
		fr.vals[in] = TV{T: "0", Ty: in.Type(), Sort: "Int"}
	case 1:
		if len(results) == 1 {
			fr.vals[in] = TV{T: results[0].T, Ty: in.Type(), Sort: results[0].Sort}
		} else {
			v.freshVal(fr, in, st)
		}
	default:
		if len(results) == rt.Len() {
			fr.tuples[in] = results
			fr.vals[in] = TV{T: "0", Ty: in.Type(), Sort: "Int"}
		} else {
			v.freshTuple(fr, st, in, rt)
		}
	}
}

func (v *FV) freshResults(st *State, rt *types.Tuple, prefix string) []TV {
	var res []TV
	for i := 0; i < rt.Len(); i++ {
		et := rt.At(i).Type()
		s := v.sortOf(et)
		n := v.declare(prefix+"_r"+fmt.Sprint(i), s)
		if s == "Int" && v.isRefType(et) {
			v.assume(st.reach, v.refOK(n))
		} else {
			if s == "Slice" {
				// the backing array of a returned slice exists when the call returns: it is
				// below the allocation counter afterwards (later allocations are distinct from it)
				arrT := fmt.Sprintf("(sl_arr %s)", n)
				top := v.topOf(st.snap)
				v.heapSet(st.snap, "TOP", fmt.Sprintf("(store %s 0 (ite (>= %s %s) (+ %s 1) %s))", v.heapGet(st.snap, "TOP"), arrT, top, arrT, top))
			}
			v.assume(st.reach, v.typeFacts(n, et))
		}
		res = append(res, TV{T: n, Ty: et, Sort: s})
	}
	return res
}

// doCall performs a call in state st and returns result values.
func (v *FV) doCall(fr *Frame, st *State, cc *ssa.CallCommon, recvTV TV, args []TV, pos string) []TV {
	if v.useClock && v.quiet == 0 {
		// logical time: one tick per call made by the function under verification (now() in contracts)
		v.regArray("CLOCK", fmt.Sprintf("(Array Int %s)", v.idx()))
		v.wr(st.snap, "CLOCK", "0", v.iadd(v.rd(st.snap, "CLOCK", "0"), v.idxLit(1)))
	}
	before := v.sharedInterference(fr, st, pos)
	var fvKey Term // the function value called (evaluated before the call: the call may change the variable)
	if !cc.IsInvoke() && isFuncValueCall(cc) && v.quiet == 0 {
		fvKey = v.val(fr, cc.Value).T
	}
	res := v.doCall2(fr, st, cc, recvTV, args, pos)
	if cc.IsInvoke() && v.quiet == 0 {
		// ghost trace of interface method invocations: calls(x.M) counts them per receiver
		rv := recvTV
		if rv.T == "" {
			rv = v.val(fr, cc.Value)
		}
		v.regArray("CALLS", fmt.Sprintf("(Array Int %s)", v.idx()))
		k := v.methodKey(rv.T, cc.Method.Name())
		v.wr(st.snap, "CALLS", k, v.iadd(v.rd(st.snap, "CALLS", k), v.idxLit(1)))
		fvKey = k
	}
	if fvKey != "" {
		// calledat(f): logical time of the last invocation; lasterrnil(f): its last result (an error) was nil
		if v.useClock {
			v.regArray("STAMP", fmt.Sprintf("(Array Int %s)", v.idx()))
			v.wr(st.snap, "STAMP", fvKey, v.rd(st.snap, "CLOCK", "0"))
		}
		if n := len(res); n > 0 && res[n-1].Sort == "Int" && isErrorType(res[n-1].Ty) {
			v.regArray("RESNIL", "(Array Int Bool)")
			v.wr(st.snap, "RESNIL", fvKey, fmt.Sprintf("(= %s 0)", res[n-1].T))
		}
	}
	if (fr.isTop || v.topFrame != nil) && v.con != nil && len(v.con.GhostAfter) > 0 && v.quiet == 0 {
		name := v.calleeName(cc, cc.StaticCallee())
		for _, g := range v.con.GhostAfter {
			if !strings.Contains(name, g.Name) {
				continue
			}
			frm := fr
			if !fr.isTop {
				frm = v.topFrame // a call made by an inlined callee / deferred closure: names are those of the top function
			}
			env := v.exprEnv(frm, st, "ghost_after "+g.Name)
			if len(res) > 0 {
				env.vars["result"] = res[0]
			}
			if err := v.ghostAssign(env, st, g.Text); err != nil {
				v.specError(g, err)
			}
			v.ghostAfterHits[g.Name]++
		}
	}
	v.sharedAfterStep(fr, st, before, pos, v.calleeName(cc, nil))
	return res
}

func (v *FV) doCall2(fr *Frame, st *State, cc *ssa.CallCommon, recvTV TV, args []TV, pos string) []TV {
	rt := cc.Signature().Results()
	if lk := v.lockCall(cc); lk != "" {
		v.execLock(fr, st, cc, lk, pos)
		return v.freshResults(st, rt, "lock")
	}
	con, callee := v.resolveCallee(fr, cc)
	if callee != nil && !cc.IsInvoke() && len(cc.Args) > 0 && callee.Signature.Recv() != nil {
		if strings.HasPrefix(fnKey(callee), "go.uber.org/atomic.") || strings.HasPrefix(fnKey(callee), "sync/atomic.") {
			switch callee.Name() {
			case "Store", "Add", "Sub", "Inc", "Dec", "CompareAndSwap", "CAS", "Swap", "Toggle":
				if owner, ot, path := fieldPathOf(cc.Args[0]); owner != nil {
					v.locksetCheck(fr, st, owner, ot, path+".val", true, pos)
				}
			}
		}
	}
	if con != nil && !con.Inline {
		if callee != nil && callee.Signature.Recv() != nil && len(args) > 0 && v.quiet == 0 {
			for _, ld := range v.eng.db.Locks {
				if ld.Owner == typeKey(callee.Signature.Recv().Type()) && acquiresLock(callee, ld.Field, 0) {
					v.countSection(fr, st, ld, args[0].T)
				}
			}
		}
		if callee == nil && !cc.IsInvoke() && isFuncValueCall(cc) {
			// a function value with a declared contract (callback parameter, package-level function
			// variable, function-typed field): count the call in the ghost trace
			v.bumpCalls(st, v.val(fr, cc.Value).T, args)
		}
		return v.applyContract(fr, st, con, callee, cc, recvTV, args, pos)
	}
	if v.isNoEffect(cc, callee) {
		return v.freshResults(st, rt, "ne")
	}
	// closures and inlinable functions
	if ci, ok := fr.closures[cc.Value]; ok && ci.fn.Blocks != nil && fr.depth < maxInlineDepth {
		if len(findLoops(ci.fn)) == 0 || v.eng.db.Contracts[fnKey(ci.fn)] != nil {
			return v.inline(fr, st, ci.fn, args, ci.bindings, pos)
		}
	}
	if callee != nil && fr.depth < maxInlineDepth && v.inlinable(callee) {
		return v.inline(fr, st, callee, args, nil, pos)
	}
	if v.isNoEffect(cc, callee) {
		return v.freshResults(st, rt, "ne")
	}
	name := v.calleeName(cc, callee)
	v.note("call to %s at %s has no contract and is not inlinable: all heap state havocked, results arbitrary", name, pos)
	v.regArray("CALLS", fmt.Sprintf("(Array Int %s)", v.idx()))
	v.regArray("ARGNN", "(Array Int Bool)")
	v.havocAll(st.snap)
	if callee == nil && !cc.IsInvoke() {
		// a function value (client code): count the call in the ghost trace
		fv := recvTV
		if fv.T == "" {
			fv = v.val(fr, cc.Value)
		}
		v.bumpCalls(st, fv.T, args)
	}
	return v.freshResults(st, rt, "unk")
}

func (v *FV) inline(fr *Frame, st *State, callee *ssa.Function, args []TV, bindings []TV, pos string) []TV {
	nf := v.newFrame(callee, fr.depth+1)
	for i, p := range callee.Params {
		if i < len(args) {
			nf.vals[p] = TV{T: args[i].T, Ty: p.Type(), Sort: args[i].Sort}
			nf.params[p.Name()] = nf.vals[p]
		}
	}
	for i, fv := range callee.FreeVars {
		if i < len(bindings) {
			nf.vals[fv] = bindings[i]
		}
	}
	nf.oldSnap = st.snap.clone()
	nf.con = v.eng.db.Contracts[fnKey(callee)]
	v.inlineStack = append(v.inlineStack, fnKey(callee))
	saveKey := v.curFnKey
	sub := &State{reach: st.reach, snap: st.snap.clone(), env: map[string]TV{}, addr: map[string]TV{}, held: map[string]string{}}
	for k, m := range st.held {
		sub.held[k] = m
	}
	sub.panicking, sub.recovered = st.panicking, st.recovered
	exits := v.execBody(nf, sub)
	v.curSt = st
	v.curFnKey = saveKey
	v.inlineStack = v.inlineStack[:len(v.inlineStack)-1]
	// merge normal exits back into st
	var normal []Exit
	for _, e := range exits {
		if !e.panics {
			normal = append(normal, e)
		}
	}
	rt := callee.Signature.Results()
	if len(normal) == 0 {
		// callee never returns normally: the continuation is unreachable
		st.reach = "false"
		return v.freshResults(st, rt, "noret")
	}
	var cs []condSnap
	var conds []Term
	for _, e := range normal {
		cs = append(cs, condSnap{e.st.reach, e.st.snap})
		conds = append(conds, e.st.reach)
	}
	st.snap = v.mergeSnaps(cs)
	if len(conds) == 1 {
		st.reach = conds[0]
	} else {
		st.reach = v.define(nf.prefix+"Rret", "Bool", "(or "+strings.Join(conds, " ")+")")
	}
	st.panicking, st.recovered = normal[0].st.panicking, normal[0].st.recovered
	st.held = map[string]string{}
	for k, m := range normal[0].st.held {
		keep := true
		for _, e := range normal[1:] {
			if _, ok := e.st.held[k]; !ok {
				keep = false
			}
		}
		if keep {
			st.held[k] = m
		}
	}
	var res []TV
	for i := 0; i < rt.Len(); i++ {
		et := rt.At(i).Type()
		s := v.sortOf(et)
		expr := normal[len(normal)-1].results[i].T
		for k := len(normal) - 2; k >= 0; k-- {
			if normal[k].results[i].T != expr {
				expr = fmt.Sprintf("(ite %s %s %s)", normal[k].st.reach, normal[k].results[i].T, expr)
			}
		}
		n := v.define(nf.prefix+"ret"+fmt.Sprint(i), s, expr)
		res = append(res, TV{T: n, Ty: et, Sort: s})
	}
	return res
}

func (v *FV) newFrame(fn *ssa.Function, depth int) *Frame {
	v.ctr++
	return &Frame{fieldFnOwner: map[ssa.Value]ssa.Value{}, fn: fn, vals: map[ssa.Value]TV{}, tuples: map[ssa.Value][]TV{}, locs: map[ssa.Value]*Loc{}, closures: map[ssa.Value]*closureInfo{}, depth: depth,
		prefix: fmt.Sprintf("f%d_", v.ctr), params: map[string]TV{}}
}

// contractVars binds the names a contract may use to the actual argument terms.
func (v *FV) contractVars(con *Contract, callee *ssa.Function, cc *ssa.CallCommon, recvTV TV, args []TV) (map[string]TV, *types.Package) {
	sig := cc.Signature()
	vars := map[string]TV{}
	var pkg *types.Package
	if callee != nil && callee.Pkg != nil {
		pkg = callee.Pkg.Pkg
	}
	if p := v.pkgOf(con.Pkg); p != nil {
		pkg = p
	}
	ai := 0
	if v.curFrame != nil {
		if owner, ok := v.curFrame.fieldFnOwner[cc.Value]; ok {
			vars["self"] = v.val(v.curFrame, owner)
		}
	}
	if cc.IsInvoke() {
		vars["self"] = TV{T: recvTV.T, Ty: cc.Value.Type(), Sort: "Int"}
		if pkg == nil && cc.Method.Pkg() != nil {
			pkg = cc.Method.Pkg()
		}
	} else if sig.Recv() != nil {
		if len(args) > 0 {
			vars["self"] = TV{T: args[0].T, Ty: sig.Recv().Type(), Sort: args[0].Sort}
			if n := sig.Recv().Name(); n != "" && n != "_" {
				vars[n] = vars["self"]
			}
			if callee != nil && len(callee.Params) > 0 {
				vars[callee.Params[0].Name()] = vars["self"]
			}
		}
		ai = 1
	}
	for i := 0; i < sig.Params().Len(); i++ {
		p := sig.Params().At(i)
		n := p.Name()
		if callee != nil && ai+i < len(callee.Params) {
			n = callee.Params[ai+i].Name()
		}
		if i < len(con.ParamName) {
			n = con.ParamName[i]
		}
		if n == "" || n == "_" {
			n = fmt.Sprintf("arg%d", i)
		}
		if ai+i < len(args) {
			vars[n] = TV{T: args[ai+i].T, Ty: p.Type(), Sort: args[ai+i].Sort}
			vars[fmt.Sprintf("arg%d", i)] = vars[n]
		}
	}
	return vars, pkg
}

func bindResultNames(vars map[string]TV, sig *types.Signature, results []TV) {
	for i, r := range results {
		vars[fmt.Sprintf("result%d", i)] = r
		if i == 0 {
			vars["result"] = r
		}
		if i < sig.Results().Len() {
			if n := sig.Results().At(i).Name(); n != "" && n != "_" {
				if _, clash := vars[n]; !clash {
					vars[n] = r
				}
			}
		}
	}
}

func (v *FV) applyContract(fr *Frame, st *State, con *Contract, callee *ssa.Function, cc *ssa.CallCommon, recvTV TV, args []TV, pos string) []TV {
	v.curFrame = fr
	v.curSt = st
	sig := cc.Signature()
	name := con.Key
	if con.Extern || con.Trusted {
		v.trusted["assumed contract: "+con.Key] = true
	}
	vars, pkg := v.contractVars(con, callee, cc, recvTV, args)
	short := name
	if i := strings.LastIndex(short, "/"); i >= 0 {
		short = short[i+1:]
	}
	if self, ok := vars["self"]; ok && self.Ty != nil && v.isRefLike(self.Ty) && !con.Extern {
		v.oblige("nil", "recv."+mangle(short), pos, "receiver of "+short+" is not nil", st.reach, fmt.Sprintf("(not (= %s 0))", self.T))
	}
	env := &ExprEnv{v: v, vars: vars, snap: st.snap, pkg: pkg, reach: st.reach, what: "contract of " + name}
	var focusPre []Term
	for i, c := range con.Requires {
		t, err := env.EvalBool(c.Text)
		if err != nil {
			v.specError(c, err)
			continue
		}
		lbl := c.Name
		if lbl == "" {
			lbl = fmt.Sprintf("%s.%d", mangle(short), i+1)
		} else {
			lbl = mangle(short) + "." + lbl
		}
		v.oblige("pre@call", lbl, pos, "precondition of "+short+": "+c.Text, st.reach, t)
		if v.con != nil && len(v.con.Focus) > 0 && !isFocused(v.con, c.Name) {
			// thin contract: this precondition is generated but not claimed, so it may fail; what the callee ensures is
			// then only known for calls that did satisfy it (assumed below as pre ==> post, never unconditionally)
			focusPre = append(focusPre, t)
		}
	}
	pre := st.snap.clone()
	topAtCall := v.define("topcall", "Int", v.topOf(pre))
	// frame
	if con.HasMod {
		for _, m := range con.Modifies {
			if m == "*" {
				v.havocAll(st.snap)
				continue
			}
			envM := &ExprEnv{v: v, vars: vars, snap: pre, pkg: pkg, what: "modifies of " + name}
			if _, err := v.locWrite(envM, st, m, ""); err != nil {
				v.specError(Clause{File: con.File, Line: con.Line, Text: "modifies " + m}, err)
			}
		}
	}
	if con.NoRefine {
		v.trusted["interface contract "+shortKey(con.Key)+" is assumed at call sites (not tied to the implementations' contracts)"] = true
	}
	var coverBefore *Obligation
	if v.quiet == 0 && len(con.Ensures) > 0 {
		coverBefore = &Obligation{Name: v.curFnKey + "#cover.before." + mangle(short), Kind: "cover", Fn: v.curFnKey, Pos: pos, Reach: "true", Goal: fmt.Sprintf("(not %s)", st.reach), ScriptLen: len(v.script), Expect: "sat"}
	}
	results := v.freshResultsFor(st, sig.Results(), "r_"+mangle(short), con.Fresh)
	bindResultNames(vars, sig, results)
	env2 := &ExprEnv{v: v, vars: vars, snap: st.snap, old: pre, pkg: pkg, reach: st.reach, what: "contract of " + name, freshBase: topAtCall}
	for _, c := range con.Ensures {
		if strings.HasPrefix(c.Name, "opt.") {
			// an alternative phrasing of the contract: assumed only by callers that ask for it ("uses opt.x")
			asked := false
			group := c.Name
			if k := strings.Index(group, ":"); k > 0 {
				group = group[:k]
			}
			if v.con != nil {
				for _, u := range v.con.Uses {
					asked = asked || u == group
				}
			}
			if !asked {
				continue
			}
		}
		if mentionsCallTrace(c.Text) {
			// calls(f) / calledat(f) / lasterrnil(f) / lastarg(f) / lastnonnil(f) speak about the calls the
			// function under verification makes ITSELF; the counters are not changed by what a callee does,
			// so a callee's clause about its own calls says nothing here (assuming it would equate a counter
			// with itself plus one and silently kill the path). Not assumed at call sites.
			v.note("clause '%s' of %s speaks about the callee's own call trace: not assumed at the call site %s", c.Name, short, pos)
			continue
		}
		t, err := env2.EvalBool(c.Text)
		if err != nil {
			v.specError(c, err)
			continue
		}
		if len(focusPre) > 0 {
			t = fmt.Sprintf("(=> (and %s true) %s)", strings.Join(focusPre, " "), t)
		}
		v.assume(st.reach, t)
	}
	if coverBefore != nil {
		// vacuity guard: assuming the callee's ensures must not make this point unreachable
		v.oblNames[v.curFnKey+"#cover."+mangle(short)]++
		n := v.oblNames[v.curFnKey+"#cover."+mangle(short)]
		after := &Obligation{Name: fmt.Sprintf("%s#cover.%s.%d", v.curFnKey, mangle(short), n), Kind: "cover", Fn: v.curFnKey, Pos: pos,
			Text: "the assumed contract of " + short + " does not contradict what is known at the call site (vacuity guard)",
			Reach: "true", Goal: fmt.Sprintf("(not %s)", st.reach), ScriptLen: len(v.script), Expect: "sat", Before: coverBefore}
		coverBefore.Name = after.Name + ".before"
		v.obls = append(v.obls, after)
	}
	if con.Persistent && v.con != nil && len(v.con.Crash) > 0 && v.topFrame != nil && v.quiet == 0 {
		// a crash point: the persistent state as it is now must satisfy the crash invariant
		tf := v.topFrame
		cvars := map[string]TV{}
		for k, x := range tf.params {
			cvars[k] = x
		}
		cenv := &ExprEnv{v: v, vars: cvars, snap: st.snap, old: tf.oldSnap, reach: st.reach, what: "crash invariant of " + v.con.Key}
		if tf.fn.Pkg != nil {
			cenv.pkg = tf.fn.Pkg.Pkg
		}
		for i, c := range v.con.Crash {
			t, err := cenv.EvalBool(c.Text)
			if err != nil {
				v.specError(c, err)
				continue
			}
			lbl := c.Name
			if lbl == "" {
				lbl = fmt.Sprint(i + 1)
			}
			v.oblige("crash", lbl, pos, "crash invariant after "+short+": "+c.Text, st.reach, t)
		}
	}
	return results
}

func (v *FV) freshResultsFor(st *State, rt *types.Tuple, prefix string, fresh bool) []TV {
	var res []TV
	for i := 0; i < rt.Len(); i++ {
		et := rt.At(i).Type()
		s := v.sortOf(et)
		if i == 0 && fresh && s == "Int" {
			r := v.newRef(prefix)
			res = append(res, TV{T: r, Ty: et, Sort: s})
			continue
		}
		n := v.declare(prefix+"_"+fmt.Sprint(i), s)
		if v.isRefLike(et) {
			// a returned reference either existed before (<= N0), is one of the objects
			// allocated so far, or is new (the contract may say fresh(result)): in that
			// case it is distinct from everything else. It joins the allocated list.
			var distinct []string
			for _, o := range v.fresh {
				distinct = append(distinct, fmt.Sprintf("(distinct %s %s)", n, o))
			}
			newObj := fmt.Sprintf("(> %s %s)", n, v.n0)
			if len(distinct) > 0 {
				newObj = fmt.Sprintf("(and (> %s %s) %s)", n, v.n0, strings.Join(distinct, " "))
			}
			top := v.topOf(st.snap)
			v.assume(st.reach, fmt.Sprintf("(and (>= %s 0) (or %s (and %s (>= %s %s))))", n, v.refOK(n), newObj, n, top))
			v.heapSet(st.snap, "TOP", fmt.Sprintf("(store %s 0 (ite (>= %s %s) (+ %s 1) %s))", v.heapGet(st.snap, "TOP"), n, top, n, top))
			v.fresh = append(v.fresh, n)
		} else {
			if s == "Slice" {
				arrT := fmt.Sprintf("(sl_arr %s)", n)
				top := v.topOf(st.snap)
				v.heapSet(st.snap, "TOP", fmt.Sprintf("(store %s 0 (ite (>= %s %s) (+ %s 1) %s))", v.heapGet(st.snap, "TOP"), arrT, top, arrT, top))
			}
			v.assume(st.reach, v.typeFacts(n, et))
		}
		res = append(res, TV{T: n, Ty: et, Sort: s})
	}
	return res
}

func (v *FV) runDeferred(fr *Frame, st *State, d *deferRec) {
	pos := posStr(v.eng.fset, d.instr.Pos())
	if d.cond != "true" && d.cond != st.reach {
		// conditional defer: run on a copy and merge
		run := st.clone()
		run.reach = v.define("dcond", "Bool", fmt.Sprintf("(and %s %s)", st.reach, d.cond))
		skipReach := v.define("dskip", "Bool", fmt.Sprintf("(and %s (not %s))", st.reach, d.cond))
		v.runDeferredIn(fr, run, d, pos)
		st.snap = v.mergeSnaps([]condSnap{{run.reach, run.snap}, {skipReach, st.snap}})
		return
	}
	v.runDeferredIn(fr, st, d, pos)
}

func (v *FV) runDeferredIn(fr *Frame, st *State, d *deferRec, pos string) {
	cc := d.call
	if b, ok := cc.Value.(*ssa.Builtin); ok {
		_ = b
		return
	}
	// recover() stops a panic only when the deferred function itself calls it (not a function it calls)
	v.deferDepths = append(v.deferDepths, fr.depth+1)
	v.doCall(fr, st, cc, d.fnVal, d.args, pos)
	v.deferDepths = v.deferDepths[:len(v.deferDepths)-1]
}

// ---------- builtins

func (v *FV) builtin(fr *Frame, st *State, in ssa.Value, cc *ssa.CallCommon, b *ssa.Builtin) {
	pos := posStr(v.eng.fset, cc.Pos())
	switch b.Name() {
	case "len", "cap":
		x := v.val(fr, cc.Args[0])
		switch {
		case x.Sort == "Slice":
			v.setVal(fr, in, fmt.Sprintf("(sl_%s %s)", b.Name(), x.T))
		case x.Sort == "Str":
			v.setVal(fr, in, fmt.Sprintf("(str_len %s)", x.T))
		default:
			if _, ok := cc.Args[0].Type().Underlying().(*types.Map); ok {
				tv := v.setVal(fr, in, fmt.Sprintf("(ite (= %s 0) %s %s)", x.T, v.idxLit(0), v.rd(st.snap, v.mapLenArray(), x.T)))
				v.assume(st.reach, fmt.Sprintf("(%s %s %s)", v.cmpOp(">=", true), tv.T, v.idxLit(0)))
			} else if at, ok := cc.Args[0].Type().Underlying().(*types.Array); ok {
				v.setVal(fr, in, v.idxLit(at.Len()))
			} else if pt, ok := cc.Args[0].Type().Underlying().(*types.Pointer); ok {
				if at, ok := pt.Elem().Underlying().(*types.Array); ok {
					v.setVal(fr, in, v.idxLit(at.Len()))
				} else {
					v.freshVal(fr, in, st)
				}
			} else {
				tv := v.freshVal(fr, in, st)
				v.assume(st.reach, fmt.Sprintf("(%s %s %s)", v.cmpOp(">=", true), tv.T, v.idxLit(0)))
			}
		}
	case "append":
		v.appendOp(fr, st, in, cc, pos)
	case "copy":
		v.copyOp(fr, st, in, cc, pos)
	case "delete":
		m := cc.Args[0].Type().Underlying().(*types.Map)
		ref := v.val(fr, cc.Args[0]).T
		k := v.val(fr, cc.Args[1]).T
		dom, _ := v.mapArrays(m)
		domA := v.define("ddom", fmt.Sprintf("(Array %s Bool)", v.sortOf(m.Key())), v.rd(st.snap, dom, ref))
		ml := v.mapLenArray()
		lenT := v.rd(st.snap, ml, ref)
		// delete on a nil map is a no-op; writes at ref 0 are harmless in the model
		v.wr(st.snap, ml, ref, fmt.Sprintf("(ite (select %s %s) %s %s)", domA, k, v.isub(lenT, v.idxLit(1)), lenT))
		v.wr(st.snap, dom, ref, fmt.Sprintf("(store %s %s false)", domA, k))
		fr.vals[in] = TV{T: "0", Ty: in.Type(), Sort: "Int"}
	case "min", "max":
		x := v.val(fr, cc.Args[0])
		acc := x.T
		for _, a := range cc.Args[1:] {
			y := v.val(fr, a)
			op := token2("<")
			if b.Name() == "max" {
				op = token2(">")
			}
			c := v.compare(op, TV{T: acc, Ty: x.Ty, Sort: x.Sort}, y)
			acc = fmt.Sprintf("(ite %s %s %s)", c, acc, y.T)
		}
		v.setVal(fr, in, acc)
	case "print", "println":
		fr.vals[in] = TV{T: "0", Ty: in.Type(), Sort: "Int"}
	case "recover":
		if st.panicking && (len(v.deferDepths) == 0 || fr.depth != v.deferDepths[len(v.deferDepths)-1]) {
			// called by a helper of the deferred function (or outside any deferred call): returns nil, the
			// panic goes on
			v.note("recover() at %s is not called directly by a deferred function: it does not stop the panic", pos)
			fr.vals[in] = TV{T: "0", Ty: in.Type(), Sort: "Int"}
		} else if st.panicking {
			tv := v.freshVal(fr, in, st)
			v.assume(st.reach, fmt.Sprintf("(not (= %s 0))", tv.T))
			st.panicking = false
			st.recovered = true
		} else {
			fr.vals[in] = TV{T: "0", Ty: in.Type(), Sort: "Int"}
		}
	case "close":
		fr.vals[in] = TV{T: "0", Ty: in.Type(), Sort: "Int"}
	default:
		fail("builtin %s", b.Name())
	}
}

func (v *FV) appendOp(fr *Frame, st *State, in ssa.Value, cc *ssa.CallCommon, pos string) {
	s := v.val(fr, cc.Args[0])
	e := v.val(fr, cc.Args[1])
	sl := cc.Args[0].Type().Underlying().(*types.Slice)
	arr := v.elemArray(sl.Elem())
	es := v.sortOf(sl.Elem())
	pre := st.snap.clone()
	// new backing array (the model never reuses spare capacity: callers must not rely
	// on aliasing between the old and the new slice)
	ref := v.newRef(fr.prefix + in.Name())
	newLen := ""
	contents := v.declare(fr.prefix+in.Name()+"_c", fmt.Sprintf("(Array %s %s)", v.idx(), es))
	lt := v.cmpOp("<", true)
	le := v.cmpOp("<=", true)
	z := v.idxLit(0)
	slen := fmt.Sprintf("(sl_len %s)", s.T)
	if e.Sort == "Slice" {
		elen := fmt.Sprintf("(sl_len %s)", e.T)
		newLen = v.iadd(slen, elen)
		oldAt := v.sliceElemAt(pre, arr, es, s.T, "i")
		pats := fmt.Sprintf(":pattern ((select %s i))", contents)
		if strings.HasPrefix(oldAt, "(select ") && !strings.Contains(oldAt, "(ite ") {
			// also instantiate from the old side: facts about an element of the old slice carry over
			pats += fmt.Sprintf(" :pattern (%s)", oldAt)
		}
		v.emit(fmt.Sprintf("(assert (forall ((i %s)) (! (=> (and (%s %s i) (%s i %s)) (= (select %s i) %s)) %s)))",
			v.idx(), le, z, lt, slen, contents, oldAt, pats))
		v.emit(fmt.Sprintf("(assert (forall ((i %s)) (=> (and (%s %s i) (%s i %s)) (= (select %s %s) %s))))",
			v.idx(), le, z, lt, elen, contents, v.iadd(slen, "i"), v.sliceElemAt(pre, arr, es, e.T, "i")))
		// single-element appends (the common case) get a direct equation
		v.emit(fmt.Sprintf("(assert (=> (= %s %s) (= (select %s %s) %s)))", elen, v.idxLit(1), contents, slen, v.sliceElemAt(pre, arr, es, e.T, v.idxLit(0))))
	} else if e.Sort == "Str" {
		elen := fmt.Sprintf("(str_len %s)", e.T)
		newLen = v.iadd(slen, elen)
	} else {
		fail("append of %s", e.Sort)
	}
	v.wr(st.snap, arr, ref, contents)
	if e.Sort == "Slice" && storeBackIdiom(in, cc) {
		v.trusted["x.f = append(x.f, ...): the spare capacity behind a slice held in a variable or field is taken to belong to that slice (no other live slice over the same array extends beyond its length), so the in-place write is invisible; modelled as a copy"] = true
	} else if e.Sort == "Slice" && !localSlice(cc.Args[0], map[ssa.Value]bool{}) {
		// The appended-to slice may come from outside this function (a parameter, a heap field, a re-slice
		// of one): if it has spare capacity Go appends IN PLACE, i.e. it writes into the existing backing
		// array behind the slice's length - visible through every other slice over that array (s[:0] idiom).
		// The result value is still modelled as a copy; the write into the old array is modelled here, so
		// frame conditions and aliases over the old array see it.
		sref := v.arrOf(s.T)
		soff := fmt.Sprintf("(sl_off %s)", s.T)
		scap := fmt.Sprintf("(sl_cap %s)", s.T)
		elen := fmt.Sprintf("(sl_len %s)", e.T)
		old := v.rd(pre, arr, sref)
		cin := v.declare(fr.prefix+in.Name()+"_ip", fmt.Sprintf("(Array %s %s)", v.idx(), es))
		lo := v.iadd(soff, slen)
		hi := v.iadd(lo, elen)
		v.emit(fmt.Sprintf("(assert (forall ((j %s)) (! (=> (not (and (%s %s j) (%s j %s))) (= (select %s j) (select %s j))) :pattern ((select %s j)))))",
			v.idx(), le, lo, lt, hi, cin, old, cin))
		v.emit(fmt.Sprintf("(assert (forall ((i %s)) (! (=> (and (%s %s i) (%s i %s)) (= (select %s %s) %s)) :pattern ((select %s %s)))))",
			v.idx(), le, z, lt, elen, cin, v.iadd(lo, "i"), v.sliceElemAt(pre, arr, es, e.T, "i"), cin, v.iadd(lo, "i")))
		v.emit(fmt.Sprintf("(assert (=> (= %s %s) (= (select %s %s) %s)))", elen, v.idxLit(1), cin, lo, v.sliceElemAt(pre, arr, es, e.T, v.idxLit(0))))
		inplace := fmt.Sprintf("(and (not (= %s 0)) (%s %s %s))", sref, lt, slen, scap)
		v.wr(st.snap, arr, sref, fmt.Sprintf("(ite %s %s %s)", inplace, cin, old))
		v.trusted["append to a slice that may come from outside the function: the in-place write into spare capacity of the old backing array is modelled; the result value is modelled as a copy (later writes through the result do not reach the old array)"] = true
	} else {
		v.trusted["append to slices built inside the function (nil / make / append / slice literal): always modelled as a copy; aliasing between two local slices over one array is not modelled"] = true
	}
	nl := v.define(fr.prefix+in.Name()+"_len", v.idx(), newLen)
	capT := v.declare(fr.prefix+in.Name()+"_cap", v.idx())
	v.assume(st.reach, fmt.Sprintf("(%s %s %s)", le, nl, capT))
	if v.mode == ModeBV {
		// lengths never wrap
		v.assume(st.reach, fmt.Sprintf("(%s %s %s)", le, slen, nl))
	}
	v.setVal(fr, in, fmt.Sprintf("(mk_slice %s %s %s %s)", ref, z, nl, capT))
}

// storeBackIdiom: x.f = append(x.f, ...) - the appended-to slice is loaded from an address and the result
// is stored back to that same address.
// sameLoad: the same SSA value, or two loads of the same variable / field address
func sameLoad(a, b ssa.Value) bool {
	if a == b {
		return true
	}
	ua, ok1 := a.(*ssa.UnOp)
	ub, ok2 := b.(*ssa.UnOp)
	if !ok1 || !ok2 || ua.Op != token.MUL || ub.Op != token.MUL {
		return false
	}
	if ua.X == ub.X {
		return true
	}
	fa, ok1 := ua.X.(*ssa.FieldAddr)
	fb, ok2 := ub.X.(*ssa.FieldAddr)
	return ok1 && ok2 && fa.X == fb.X && fa.Field == fb.Field
}

func storeBackIdiom(in ssa.Value, cc *ssa.CallCommon) bool {
	if lk, ok := cc.Args[0].(*ssa.Lookup); ok && in.Referrers() != nil {
		// m[k] = append(m[k], ...)
		for _, r := range *in.Referrers() {
			if mu, ok := r.(*ssa.MapUpdate); ok && mu.Value == in && sameLoad(mu.Map, lk.X) && mu.Key == lk.Index {
				return true
			}
		}
		return false
	}
	ld, ok := cc.Args[0].(*ssa.UnOp)
	if !ok || ld.Op != token.MUL || in.Referrers() == nil {
		return false
	}
	same := func(a, b ssa.Value) bool {
		if a == b {
			return true
		}
		fa, ok1 := a.(*ssa.FieldAddr)
		fb, ok2 := b.(*ssa.FieldAddr)
		return ok1 && ok2 && fa.X == fb.X && fa.Field == fb.Field
	}
	stored := false
	for _, r := range *in.Referrers() {
		if s, ok := r.(*ssa.Store); ok && s.Val == in && same(s.Addr, ld.X) {
			stored = true
		}
	}
	if !stored {
		return false
	}
	// every other value this function puts into that variable / field must be built locally: a re-slice of a
	// foreign slice (s[:0]) stored there first would make the in-place write visible through the foreign slice
	okVal := func(val ssa.Value) bool {
		if c, ok := val.(*ssa.Call); ok {
			if b, ok := c.Call.Value.(*ssa.Builtin); ok && b.Name() == "append" {
				if l2, ok := c.Call.Args[0].(*ssa.UnOp); ok && l2.Op == token.MUL && same(l2.X, ld.X) {
					return true
				}
			}
		}
		return localSlice(val, map[ssa.Value]bool{})
	}
	var addrs []ssa.Value
	if fa, ok := ld.X.(*ssa.FieldAddr); ok {
		if al, ok := fa.X.(*ssa.Alloc); ok && al.Referrers() != nil {
			for _, r := range *al.Referrers() {
				if s, ok := r.(*ssa.Store); ok && s.Addr == al {
					return false // whole-struct store into the local struct: the field may hold a foreign slice
				}
			}
		}
		if fa.X.Referrers() != nil {
			for _, r := range *fa.X.Referrers() {
				if f2, ok := r.(*ssa.FieldAddr); ok && f2.Field == fa.Field {
					addrs = append(addrs, f2)
				}
			}
		}
	} else {
		addrs = append(addrs, ld.X)
	}
	for _, a := range addrs {
		if a.Referrers() == nil {
			continue
		}
		for _, r := range *a.Referrers() {
			if s, ok := r.(*ssa.Store); ok && s.Addr == a && !okVal(s.Val) {
				return false
			}
		}
	}
	return true
}

// localSlice: the slice value is built inside the function under verification (nil, make, slice literal,
// append to such a value, a re-slice of one, a phi of such values, or a load from a non-escaping local
// variable / local struct field that only ever holds such values): its backing array, if any, was
// allocated by this function, so in-place appends to it cannot touch pre-existing memory.
func localSlice(x ssa.Value, seen map[ssa.Value]bool) bool {
	if seen[x] {
		return true
	}
	seen[x] = true
	switch x := x.(type) {
	case *ssa.Const:
		return x.IsNil()
	case *ssa.MakeSlice:
		return true
	case *ssa.Call:
		if b, ok := x.Call.Value.(*ssa.Builtin); ok && b.Name() == "append" {
			return localSlice(x.Call.Args[0], seen)
		}
		return false
	case *ssa.Slice:
		if a, ok := x.X.(*ssa.Alloc); ok {
			_, isArr := a.Type().Underlying().(*types.Pointer).Elem().Underlying().(*types.Array)
			return isArr
		}
		if _, ok := x.X.Type().Underlying().(*types.Slice); ok {
			return localSlice(x.X, seen)
		}
		return false
	case *ssa.Phi:
		for _, e := range x.Edges {
			if !localSlice(e, seen) {
				return false
			}
		}
		return true
	case *ssa.UnOp:
		if x.Op != token.MUL {
			return false
		}
		switch a := x.X.(type) {
		case *ssa.Alloc:
			// a local slice variable living in a cell
			refs := a.Referrers()
			if refs == nil || !cellIsPrivate(a) {
				return false
			}
			for _, r := range *refs {
				if s, ok := r.(*ssa.Store); ok && s.Addr == a && !localSlice(s.Val, seen) {
					return false
				}
			}
			return true
		case *ssa.FieldAddr:
			al, ok := a.X.(*ssa.Alloc)
			if !ok || al.Referrers() == nil {
				return false
			}
			for _, r := range *al.Referrers() {
				switch r := r.(type) {
				case *ssa.DebugRef:
				case *ssa.UnOp: // whole-struct read: copies the header, no new provenance
				case *ssa.FieldAddr:
					if r.Referrers() == nil {
						return false
					}
					for _, fr := range *r.Referrers() {
						switch fr := fr.(type) {
						case *ssa.DebugRef, *ssa.UnOp:
						case *ssa.Store:
							if fr.Addr != r {
								return false // the field address escapes
							}
							if r.Field == a.Field && !localSlice(fr.Val, seen) {
								return false
							}
						default:
							return false
						}
					}
				default:
					return false // whole-struct store, escape, call ...
				}
			}
			return true
		}
		return false
	}
	return false
}

func (v *FV) copyOp(fr *Frame, st *State, in ssa.Value, cc *ssa.CallCommon, pos string) {
	d := v.val(fr, cc.Args[0])
	s := v.val(fr, cc.Args[1])
	sl := cc.Args[0].Type().Underlying().(*types.Slice)
	arr := v.elemArray(sl.Elem())
	es := v.sortOf(sl.Elem())
	pre := st.snap.clone()
	lt := v.cmpOp("<", true)
	le := v.cmpOp("<=", true)
	dlen := fmt.Sprintf("(sl_len %s)", d.T)
	var slen Term
	if s.Sort == "Slice" {
		slen = fmt.Sprintf("(sl_len %s)", s.T)
	} else {
		slen = fmt.Sprintf("(str_len %s)", s.T)
	}
	n := v.define(fr.prefix+in.Name(), v.idx(), fmt.Sprintf("(ite (%s %s %s) %s %s)", lt, dlen, slen, dlen, slen))
	contents := v.declare(fr.prefix+in.Name()+"_c", fmt.Sprintf("(Array %s %s)", v.idx(), es))
	doff := fmt.Sprintf("(sl_off %s)", d.T)
	old := v.rd(pre, arr, v.arrOf(d.T))
	// outside [doff, doff+n): unchanged; inside: source elements
	v.emit(fmt.Sprintf("(assert (forall ((j %s)) (! (=> (not (and (%s %s j) (%s j %s))) (= (select %s j) (select %s j))) :pattern ((select %s j)))))",
		v.idx(), le, doff, lt, v.iadd(doff, n), contents, old, contents))
	if s.Sort == "Slice" {
		v.emit(fmt.Sprintf("(assert (forall ((i %s)) (! (=> (and (%s %s i) (%s i %s)) (= (select %s %s) %s)) :pattern ((select %s %s)))))",
			v.idx(), le, v.idxLit(0), lt, n, contents, v.iadd(doff, "i"), v.sliceElemAt(pre, arr, es, s.T, "i"), contents, v.iadd(doff, "i")))
	}
	if s.Sort == "Slice" {
		// the same fact keyed by the absolute index (a pattern without arithmetic: instantiates from any read of
		// the destination)
		v.emit(fmt.Sprintf("(assert (forall ((j %s)) (! (=> (and (%s %s j) (%s j %s)) (= (select %s j) %s)) :pattern ((select %s j)))))",
			v.idx(), le, doff, lt, v.iadd(doff, n), contents, v.sliceElemAt(pre, arr, es, s.T, v.isub("j", doff)), contents))
	}
	v.wr(st.snap, arr, v.arrOf(d.T), contents)
	fr.vals[in] = TV{T: n, Ty: in.Type(), Sort: v.idx()}
}

// callGo: a Go function or method used inside a contract expression, evaluated by
// symbolic inlining in the current heap (its effects are discarded).
func (env *ExprEnv) callGo(e *ast.CallExpr) (TV, bool) {
	v := env.v
	var fn *ssa.Function
	var args []TV
	switch f := e.Fun.(type) {
	case *ast.Ident:
		if env.pkg != nil {
			if o, ok := env.pkg.Scope().Lookup(f.Name).(*types.Func); ok {
				fn = v.eng.prog.FuncValue(o)
			}
		}
	case *ast.SelectorExpr:
		// pkg.Func or value.Method
		if id, ok := f.X.(*ast.Ident); ok {
			_, isVar := env.vars[id.Name]
			if !isVar && env.lookup != nil {
				_, isVar = env.lookup(id.Name)
			}
			if !isVar {
				if p := env.findPkg(id.Name); p != nil {
					if o, ok := p.Scope().Lookup(f.Sel.Name).(*types.Func); ok {
						fn = v.eng.prog.FuncValue(o)
					}
				}
			}
		}
		if fn == nil {
			recv := env.eval(f.X)
			if recv.Ty == nil {
				return TV{}, false
			}
			ms := v.eng.prog.MethodSets.MethodSet(recv.Ty)
			var sel *types.Selection
			for i := 0; i < ms.Len(); i++ {
				if ms.At(i).Obj().Name() == f.Sel.Name {
					sel = ms.At(i)
				}
			}
			if sel == nil {
				// pointer receiver on addressable value is not supported in contracts
				return TV{}, false
			}
			fn = v.eng.prog.MethodValue(sel)
			args = append(args, recv)
		}
	}
	if fn == nil || fn.Blocks == nil {
		return TV{}, false
	}
	if len(findLoops(fn)) > 0 {
		fail("Go function %s used in a contract has loops", fn.Name())
	}
	sig := fn.Signature
	off := len(args)
	for i, a := range e.Args {
		x := env.eval(a)
		if i < sig.Params().Len() {
			pt := sig.Params().At(i).Type()
			x = env.coerce(x, pt, v.sortOf(pt))
		}
		args = append(args, x)
	}
	_ = off
	if env.heapNow() == nil {
		fail("Go call %s in pure context", fn.Name())
	}
	v.quiet++
	st := &State{reach: "true", snap: env.heapNow().clone(), env: map[string]TV{}, addr: map[string]TV{}, held: map[string]string{}}
	if env.reach != "" {
		st.reach = env.reach
	}
	top := v.newFrame(fn, 1)
	res := v.inline(top, st, fn, args, nil, "contract")
	v.quiet--
	if len(res) == 0 {
		fail("Go function %s has no result", fn.Name())
	}
	return res[0], true
}

func token2(op string) token.Token {
	switch op {
	case "<":
		return token.LSS
	case ">":
		return token.GTR
	case "<=":
		return token.LEQ
	case ">=":
		return token.GEQ
	}
	return token.ILLEGAL
}

// countSection: the top function enters a critical section of lock ld on object owner.
// Sections entered while a serializing lock of the same object is held are not counted.
func (v *FV) countSection(fr *Frame, st *State, ld *LockDecl, owner Term) {
	if v.quiet > 0 || v.top == nil || v.top.Signature.Recv() == nil || len(v.top.Params) == 0 {
		return
	}
	if v.inputs == nil || owner != "in_"+mangle(v.top.Params[0].Name()) {
		return
	}
	for _, other := range v.eng.db.Locks {
		if other.Owner != ld.Owner {
			continue
		}
		for _, s := range other.Serializes {
			if s == ld.Field {
				if _, held := st.held[other.Owner+"."+other.Field+"@"+owner]; held {
					// all sections entered during ONE acquisition of the serializing lock form one atomic
					// step; that step counts once (sections outside it are further steps)
					if v.serialGroups == nil {
						v.serialGroups = map[string]map[string]bool{}
					}
					if v.serialGroups[ld.Field] == nil {
						v.serialGroups[ld.Field] = map[string]bool{}
					}
					v.serialGroups[ld.Field][other.Field+"@"+v.serialAcq[other.Owner+"."+other.Field+"@"+owner]] = true
					return
				}
			}
		}
	}
	if v.sections == nil {
		v.sections = map[string]int{}
	}
	v.sections[ld.Field]++
}

// acquiresLock: does fn (or a method it calls on its own receiver) lock receiver.field?
func acquiresLock(fn *ssa.Function, field string, depth int) bool {
	if fn == nil || fn.Blocks == nil || depth > 3 || len(fn.Params) == 0 {
		return false
	}
	recv := fn.Params[0]
	for _, b := range fn.Blocks {
		for _, in := range b.Instrs {
			ci, ok := in.(ssa.CallInstruction)
			if !ok {
				continue
			}
			cc := ci.Common()
			if cc.IsInvoke() || len(cc.Args) == 0 {
				continue
			}
			callee, ok := cc.Value.(*ssa.Function)
			if !ok {
				continue
			}
			switch fnKey(callee) {
			case "sync.Mutex.Lock", "sync.RWMutex.Lock", "sync.RWMutex.RLock":
				a := cc.Args[0]
				if u, ok := a.(*ssa.UnOp); ok {
					a = u.X
				}
				if fa, ok := a.(*ssa.FieldAddr); ok && fa.X == recv {
					st := fa.X.Type().Underlying().(*types.Pointer).Elem().Underlying().(*types.Struct)
					if st.Field(fa.Field).Name() == field {
						return true
					}
				}
			default:
				if cc.Args[0] == recv && callee.Signature.Recv() != nil && acquiresLock(callee, field, depth+1) {
					return true
				}
			}
		}
	}
	return false
}

// ---------- shared state (rely/guarantee at call granularity)

func (v *FV) sharedDecl() (*SharedDecl, TV, bool) {
	if v.top == nil || v.top.Signature.Recv() == nil || len(v.top.Params) == 0 || v.topFrame == nil {
		return nil, TV{}, false
	}
	sd := v.eng.db.Shared[typeKey(v.top.Signature.Recv().Type())]
	if sd == nil {
		return nil, TV{}, false
	}
	return sd, v.topFrame.vals[v.top.Params[0]], true
}

func (v *FV) sharedEnv(sd *SharedDecl, self TV, snap, old *Snapshot, reach Term) *ExprEnv {
	return &ExprEnv{v: v, vars: map[string]TV{"self": self}, snap: snap, old: old, pkg: v.pkgOf(sd.Pkg), reach: reach, what: "shared " + sd.Owner}
}

// sharedInterference: other threads may have run: the shared locations get arbitrary values
// related to the current ones by the rely, and the invariant holds. Returns the state
// after the havoc (the pre-state of our next step).
func (v *FV) sharedInterference(fr *Frame, st *State, pos string) *Snapshot {
	sd, self, ok := v.sharedDecl()
	if !ok || v.quiet > 0 || (v.con != nil && v.con.Unshared) {
		return nil
	}
	prev := st.snap.clone()
	env := v.sharedEnv(sd, self, prev, nil, st.reach)
	for _, l := range sd.Locations {
		if _, err := v.locWrite(env, st, "self."+l, ""); err != nil {
			v.specError(Clause{File: sd.File, Line: sd.Line, Text: "locations " + l}, err)
		}
	}
	env2 := v.sharedEnv(sd, self, st.snap, prev, st.reach)
	if sd.Rely != "" {
		if t, err := env2.EvalBool(sd.Rely); err == nil {
			v.assume(st.reach, t)
		} else {
			v.specError(Clause{File: sd.File, Line: sd.Line, Text: sd.Rely}, err)
		}
	}
	if sd.Invariant != "" {
		if t, err := env2.EvalBool(sd.Invariant); err == nil {
			v.assume(st.reach, t)
		} else {
			v.specError(Clause{File: sd.File, Line: sd.Line, Text: sd.Invariant}, err)
		}
	}
	return st.snap.clone()
}

// sharedAfterStep: our own step must keep the invariant and respect the rely of the others.
func (v *FV) sharedAfterStep(fr *Frame, st *State, before *Snapshot, pos, what string) {
	if before == nil {
		return
	}
	sd, self, ok := v.sharedDecl()
	if !ok {
		return
	}
	env := v.sharedEnv(sd, self, st.snap, before, st.reach)
	if sd.Invariant != "" {
		if t, err := env.EvalBool(sd.Invariant); err == nil {
			v.oblige("shared.inv", "", pos, "shared-state invariant after the step "+shortKey(what)+": "+sd.Invariant, st.reach, t)
		}
	}
	if sd.Rely != "" {
		if t, err := env.EvalBool(sd.Rely); err == nil {
			v.oblige("guar", "", pos, "the step "+shortKey(what)+" respects what other threads rely on: "+sd.Rely, st.reach, t)
		}
	}
}

func mentionsCallTrace(text string) bool {
	// reading the caller's counter (calls(x) without old) is meaningful at a call site: a ghost field can
	// record how many calls the caller had made so far; a claim that a counter CHANGED is not
	for _, w := range []string{"old(calls(", "calledat(", "lasterrnil(", "lastarg(", "lastnonnil("} {
		if strings.Contains(text, w) {
			return true
		}
	}
	return false
}

func isErrorType(t types.Type) bool {
	if t == nil {
		return false
	}
	n, ok := types.Unalias(t).(*types.Named)
	return ok && n.Obj().Pkg() == nil && n.Obj().Name() == "error"
}

// isFuncValueCall: the call goes through a function value that contracts can name: a parameter, or a
// load of a package-level function variable or of a function-typed field.
func isFuncValueCall(cc *ssa.CallCommon) bool {
	switch f := cc.Value.(type) {
	case *ssa.Parameter:
		return true
	case *ssa.UnOp:
		switch f.X.(type) {
		case *ssa.Global, *ssa.FieldAddr:
			return true
		}
	}
	return false
}

// bumpCalls: ghost call trace of function values: CALLS[f] counts invocations, ARGNN[f]
// tells whether the first argument of the last invocation was non-nil.
func (v *FV) bumpCalls(st *State, f Term, args []TV) {
	v.regArray("CALLS", fmt.Sprintf("(Array Int %s)", v.idx()))
	v.regArray("ARGNN", "(Array Int Bool)")
	v.wr(st.snap, "CALLS", f, v.iadd(v.rd(st.snap, "CALLS", f), v.idxLit(1)))
	if len(args) > 0 && args[0].Sort == "Int" {
		v.wr(st.snap, "ARGNN", f, fmt.Sprintf("(not (= %s 0))", args[0].T))
	}
	if len(args) > 0 && args[0].Sort == v.idx() {
		// lastarg(f): the (64-bit integer) first argument of the last invocation
		v.regArray("ARGV", fmt.Sprintf("(Array Int %s)", v.idx()))
		v.wr(st.snap, "ARGV", f, args[0].T)
	}
}


// methodKey: the index of the ghost call counter of method m on interface value recv.
func (v *FV) methodKey(recv Term, m string) Term {
	fn := "imk_" + mangle(m)
	v.pre("fn "+fn, fmt.Sprintf("(declare-fun %s (Int) Int)", fn))
	if !v.preSeen["fnax "+fn] {
		v.imkCtr++
		v.pre("imk_tag", "(declare-fun imk_tag (Int) Int)")
		v.pre("fninv "+fn, fmt.Sprintf("(declare-fun inv_%s (Int) Int)", fn))
		// counters of different methods / different receivers are different cells, none is an object reference
		v.pre("fnax "+fn, fmt.Sprintf("(assert (forall ((r Int)) (! (and (< (%s r) (- 1000000)) (= (imk_tag (%s r)) %d) (= (inv_%s (%s r)) r)) :pattern ((%s r)))))", fn, fn, v.imkCtr, fn, fn, fn))
	}
	return fmt.Sprintf("(%s %s)", fn, recv)
}


// lockKey: the index of lock field `field` of object owner in the ghost array LOCKED.
func (v *FV) lockKey(ownerType, field string, owner Term) Term {
	fn := "lk_" + mangle(shortKey(ownerType)+"_"+field)
	if !v.preSeen["fnax "+fn] {
		v.imkCtr++
		v.pre("fn "+fn, fmt.Sprintf("(declare-fun %s (Int) Int)", fn))
		v.pre("imk_tag", "(declare-fun imk_tag (Int) Int)")
		v.pre("fninv "+fn, fmt.Sprintf("(declare-fun inv_%s (Int) Int)", fn))
		v.pre("fnax "+fn, fmt.Sprintf("(assert (forall ((r Int)) (! (and (< (%s r) (- 1000000)) (= (imk_tag (%s r)) %d) (= (inv_%s (%s r)) r)) :pattern ((%s r)))))", fn, fn, v.imkCtr, fn, fn, fn))
	}
	return fmt.Sprintf("(%s %s)", fn, owner)
}

// isFocused: the clause name is one of the clauses a thin contract claims
func isFocused(con *Contract, name string) bool {
	for _, f := range con.Focus {
		if f == name && name != "" {
			return true
		}
	}
	return false
}
