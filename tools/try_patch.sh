#!/bin/sh
# usage: try_patch.sh <patch.diff> <prop> [extra govc args]; applies patch to /repo, runs the check, reverts
P=$1; PROP=$2; shift 2
git -C /repo apply "$P" || exit 3
/verif/bin/govc check -prop $PROP -no-evidence "$@"
RC=$?
git -C /repo apply -R "$P"
exit $RC
