#!/bin/bash
# Confirms seeded changes in a scratch worktree of /repo (outside /repo and /verif): the demo passes without the
# change, the change applies and builds, the demo fails with it, and every package of the pinned suite that is `ok`
# on the unchanged tree and depends on a changed package is still `ok`. Writes /verif/seeded/<id>/confirm.json.
# usage: confirm2.sh /verif/seeded/C01-m3 ...
export GOFLAGS=-mod=mod GOPROXY=off GOSUMDB=off GOTOOLCHAIN=local
WT=$(mktemp -d /tmp/confirm-wt-XXXX)
git -C /repo worktree add -q --detach $WT HEAD || exit 2
cd $WT
if [ ! -s /tmp/confirm_base_ok.txt ]; then
  go test -vet=off -count=1 -timeout 25m ./... 2>&1 | grep -E '^ok' | awk '{print $2}' | grep -v 'pkg/state$' | sort > /tmp/confirm_base_ok.txt
  git checkout -q -- . ; git clean -fdq
fi
go list -f '{{.ImportPath}} {{join .Deps " "}} {{join .TestImports " "}} {{join .XTestImports " "}}' ./... 2>/dev/null > /tmp/confirm_deps.txt
for D in "$@"; do
  [ -f $D/patch.diff ] || continue
  ID=$(basename $D)
  CMD=$(python3 -c "import json;print(json.load(open('$D/meta.json'))['demo_cmd'].replace('<worktree-root>','$WT').replace('<worktree>','$WT'))")
  git checkout -q -- . ; git clean -fdq
  ( eval "$CMD" ) > /tmp/confirm_$ID.pre.log 2>&1; PRE=$?
  git checkout -q -- . ; git clean -fdq
  if ! git apply $D/patch.diff 2>/tmp/confirm_$ID.apply.log; then echo "{\"id\":\"$ID\",\"applies\":false}" > $D/confirm.json; echo "$ID: patch does not apply"; continue; fi
  go build ./... > /tmp/confirm_$ID.build.log 2>&1; BUILD=$?
  CHANGED=$(git diff --name-only | xargs -n1 dirname | sort -u | sed 's|^|github.com/lindb/lindb/|')
  PKGS=""
  for P in $(cat /tmp/confirm_base_ok.txt); do
    for C in $CHANGED; do
      if grep -q "^$P .*\b$C\b" /tmp/confirm_deps.txt || [ "$P" = "$C" ]; then PKGS="$PKGS $P"; break; fi
    done
  done
  LOST=""
  if [ -n "$PKGS" ]; then
    go test -vet=off -count=1 -timeout 20m $PKGS > /tmp/confirm_$ID.suite.log 2>&1
    for P in $PKGS; do grep -q "^ok[[:space:]]*$P[[:space:]]" /tmp/confirm_$ID.suite.log || LOST="$LOST $P"; done
    git checkout -q -- config 2>/dev/null
  fi
  ( eval "$CMD" ) > /tmp/confirm_$ID.post.log 2>&1; POST=$?
  git checkout -q -- . ; git clean -fdq
  NP=$(echo $PKGS | wc -w)
  echo "{\"id\":\"$ID\",\"applies\":true,\"build_rc\":$BUILD,\"demo_rc_without_change\":$PRE,\"demo_rc_with_change\":$POST,\"suite_packages_rerun\":$NP,\"suite_ok_packages_lost\":\"$LOST\",\"confirmed\":$([ $PRE -eq 0 ] && [ $POST -ne 0 ] && [ $BUILD -eq 0 ] && [ -z "$LOST" ] && echo true || echo false)}" > $D/confirm.json
  echo "$ID: pre=$PRE build=$BUILD post=$POST rerun=$NP lost=[$LOST]"
done
cd /; git -C /repo worktree remove --force $WT; rm -rf $WT
