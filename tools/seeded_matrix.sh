#!/bin/sh
# runs every seeded change (and selftest mutant) against the check of its property; writes /verif/seeded/RESULTS.txt
OUT=/verif/seeded/RESULTS.txt
: > $OUT
for p in C01 C02 C03 C04 C05 C06 C07 C08 C09 C13 C14 C15 C16 C17 C18 C19; do
  /verif/tools/run_mutants.sh $p >> $OUT 2>&1
done
cd /repo && git status --short >> $OUT
cat $OUT
