#!/bin/bash
# Confirms seeded changes in a scratch worktree of /repo (outside /repo and /verif):
# demo passes without the change, change applies + builds, demo fails with it, and the
# packages that are `ok` in the suite stay ok. Writes /verif/seeded/<id>/confirm.json.
export GOFLAGS=-mod=mod GOPROXY=off GOSUMDB=off GOTOOLCHAIN=local
WT=$(mktemp -d /tmp/confirm-wt-XXXX)
git -C /repo worktree add -q --detach $WT HEAD || exit 2
cd $WT
suite() { go test -vet=off -count=1 ./... 2>&1 | grep -E '^ok' | awk '{print $2}' | grep -v 'pkg/state$' | sort; git checkout -q -- config 2>/dev/null; }
suite > /tmp/confirm_base_ok.txt
for D in ${@:-/verif/seeded/*}; do
  [ -f $D/patch.diff ] || continue
  ID=$(basename $D)
  CMD=$(python3 -c "import json;print(json.load(open('$D/meta.json'))['demo_cmd'].replace('<worktree-root>','$WT').replace('cd <worktree> && ','').replace('<worktree>','$WT'))")
  git checkout -q -- . ; git clean -fdq
  ( eval "$CMD" ) > /tmp/confirm_$ID.pre.log 2>&1; PRE=$?
  git checkout -q -- . ; git clean -fdq
  if ! git apply $D/patch.diff 2>/tmp/confirm_$ID.apply.log; then echo "{\"id\":\"$ID\",\"applies\":false}" > $D/confirm.json; echo "$ID: patch does not apply"; continue; fi
  go build ./... > /tmp/confirm_$ID.build.log 2>&1; BUILD=$?
  suite > /tmp/confirm_$ID.ok.txt
  LOST=$(comm -23 /tmp/confirm_base_ok.txt /tmp/confirm_$ID.ok.txt | tr '\n' ' ')
  ( eval "$CMD" ) > /tmp/confirm_$ID.post.log 2>&1; POST=$?
  git checkout -q -- . ; git clean -fdq
  echo "{\"id\":\"$ID\",\"applies\":true,\"build_rc\":$BUILD,\"demo_rc_without_change\":$PRE,\"demo_rc_with_change\":$POST,\"suite_ok_packages_lost\":\"$LOST\",\"confirmed\":$([ $PRE -eq 0 ] && [ $POST -ne 0 ] && [ $BUILD -eq 0 ] && [ -z "$LOST" ] && echo true || echo false)}" > $D/confirm.json
  echo "$ID: pre=$PRE build=$BUILD post=$POST lost=[$LOST]"
done
cd /; git -C /repo worktree remove --force $WT; rm -rf $WT
