#!/bin/sh
# usage: import_seed.sh <prop> <mN> : copies /tmp/seedout/<prop>/<mN> to /verif/seeded/<prop>-<mN>, rewrites demo_cmd
P=$1; M=$2; S=/tmp/seedout/$P/$M; D=/verif/seeded/$P-$M
[ -f $S/patch.diff ] || { echo "no $S/patch.diff"; exit 1; }
rm -rf $D; mkdir -p $D; cp -r $S/patch.diff $S/meta.json $S/demo $D/
python3 - $D $P $M <<'PY'
import json,sys
d,p,m=sys.argv[1:4]
j=json.load(open(d+'/meta.json'))
j['demo_cmd']='export GOFLAGS=-mod=mod GOPROXY=off GOSUMDB=off GOTOOLCHAIN=local; sh /verif/seeded/%s-%s/demo/run_demo.sh <worktree-root>'%(p,m)
json.dump(j,open(d+'/meta.json','w'),indent=1)
PY
echo imported $D
