#!/usr/bin/env python3
"""Assembles /verif/DESIGN.md from /verif/design_parts/*.md.
Generated pieces: section 4 (per property, from tools/gen_manifest.py's table, the
evidence files and design_parts/p4/<id>.md) and section 10 (seeded-change matrix from
seeded/RESULTS.txt and the meta.json files)."""
import json, os, re, glob, importlib.util, textwrap

V = "/verif"
spec = importlib.util.spec_from_file_location("gm", V + "/tools/gen_manifest.py")
src = open(V + "/tools/gen_manifest.py").read().replace("\nmain()\n", "\n")
gm = {}
exec(compile(src, "gen_manifest", "exec"), gm)
CLAIMED, NA = gm["CLAIMED"], gm["NOT_APPLICABLE"]

props = [json.loads(l) for l in open(V + "/properties.jsonl")]

def wrap(t, ind=""):
    return "\n".join(textwrap.wrap(t, 86, initial_indent=ind, subsequent_indent=ind, break_long_words=False, break_on_hyphens=False))

def results():
    res = {}
    p = V + "/seeded/RESULTS.txt"
    if not os.path.exists(p):
        return res
    for l in open(p):
        m = re.match(r"(CAUGHT|MISSED\S*) (\S+?\.diff):? ?(.*)$", l.strip())
        if not m:
            continue
        res[m.group(2).rstrip(":")] = (m.group(1), m.group(3))
    return res

RES = results()

def mutants_of(pid):
    out = []
    for d in sorted(glob.glob(f"{V}/seeded/{pid}-m*")):
        meta = json.load(open(d + "/meta.json"))
        out.append((os.path.basename(d), d + "/patch.diff", meta.get("summary", "")))
    for f in sorted(glob.glob(f"{V}/selftest/mutants/{pid}/*.diff")):
        out.append(("selftest/" + os.path.basename(f)[:-5], f, ""))
    return out

def short(s, n=230):
    s = " ".join(s.split())
    return s if len(s) <= n else s[: n - 1].rsplit(" ", 1)[0] + " …"

def sec4():
    o = ["## 4. Per property (as built)\n",
         wrap("Each claimed property lists: **Proved** (the obligations discharged on every run, for all inputs - this is the text of MANIFEST `level_claimed`), **Assumed / not decided** (MANIFEST `level_note`), the functions under contract with their obligation counts (from the last evidence file), and the seeded changes run against the check. The plan written before the code is in design_parts/original_plan_section4.md; where the built check is narrower than the plan the difference is named under *not decided*.") + "\n"]
    for p in props:
        pid = p["id"]
        if pid in NA:
            o.append(f"### {pid} — {p['title']} (not applicable, see §5)\n")
            continue
        c = CLAIMED[pid]
        o.append(f"### {pid} — {p['title']}\n")
        o.append(wrap("**Proved.** " + c["text"]) + "\n")
        o.append(wrap("**Assumed / not decided.** " + c["note"]) + "\n")
        extra = f"{V}/design_parts/p4/{pid}.md"
        if os.path.exists(extra):
            o.append(open(extra).read().rstrip() + "\n")
        ev = f"{V}/evidence/{pid}.json"
        if os.path.exists(ev):
            e = json.load(open(ev))
            cv = e["coverage"]
            o.append(f"**Last run** ({e['tier']}): {cv['obligations']} obligations, {cv['discharged']} discharged "
                     f"({', '.join(f'{k}: {v}' for k, v in sorted(cv['by_solver'].items()))}), solver time {cv['solver_time_s']:.0f} s, wall {e['wall_s']:.0f} s.\n")
            o.append("| function under contract | integers | obligations |\n|---|---|---|")
            for f in cv["functions_under_contract"]:
                ar = "bv" if f["arith"].startswith("bit") else "math+ovf"
                o.append(f"| `{f['function']}` | {ar} | {f['discharged']}/{f['obligations']} |")
            o.append("")
            if cv.get("bounded_standins"):
                for b in cv["bounded_standins"]:
                    o.append("Bounded stand-in (not counted as proved): " + short(json.dumps(b), 400) + "\n")
        ms = mutants_of(pid)
        if ms:
            o.append("**Seeded changes** (details §10): " + "; ".join(
                f"{n}: {RES.get(path, ('not run',''))[0].lower()}" for n, path, _ in ms) + ".\n")
    return "\n".join(o)

def sec10():
    o = ["## 10. Seeded-change matrix\n",
         wrap("Each row is a change to lindb/lindb that breaks the property, still compiles and passes the pinned test suite. `Cxx-mk` were written by sub-agents that were given only the property text and their own scratch worktree (stored with a demo test under /verif/seeded/<id>/); `selftest/*` are mine (/verif/selftest/mutants). `tools/seeded_matrix.sh` applies each to /repo's working tree, runs the property's quick check and reverts. 'caught by' is the first failed obligation the check reported. Most failed obligations come back `unknown` from the solvers because their context is quantified (no model), so the VIOLATION line ends with no-failing-input-found; the replay file names the obligation and carries the solver output.") + "\n",
         "| change | what it does | result | caught by (first failed obligation) |\n|---|---|---|---|"]
    n = c = 0
    for p in props:
        for name, path, summ in mutants_of(p["id"]):
            r, ob = RES.get(path, ("not run", ""))
            n += 1
            c += r == "CAUGHT"
            ob = re.sub(r" status=.*", "", ob)
            o.append(f"| {name if name.startswith(p['id']) else p['id'] + ' ' + name} | {short(summ, 200).replace('|', '/') if summ else name.split('/')[-1].replace('_', ' ')} | {r.lower()} | `{ob}` |" if ob else
                     f"| {name if name.startswith(p['id']) else p['id'] + ' ' + name} | {short(summ, 200).replace('|', '/') if summ else name.split('/')[-1].replace('_', ' ')} | {r.lower()} | |")
    o.append(f"\n{c} of {n} caught.\n")
    extra = V + "/design_parts/100_matrix_notes.md"
    if os.path.exists(extra):
        o.append(open(extra).read())
    return "\n".join(o)

def main():
    parts = []
    for f in ["00_head.md", "10_why.md", "20_engine.md", "21_engine_asbuilt.md", "30_where.md"]:
        parts.append(open(f"{V}/design_parts/{f}").read().rstrip() + "\n")
    parts.append(sec4())
    for f in ["50_na.md", "60_leads.md", "70_trusted.md", "80_cost.md", "90_false_alarms.md"]:
        parts.append(open(f"{V}/design_parts/{f}").read().rstrip() + "\n")
    parts.append(sec10())
    open(V + "/DESIGN.md", "w").write("\n".join(parts))

main()
