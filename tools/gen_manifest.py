#!/usr/bin/env python3
"""Generates /verif/MANIFEST.json from the table below (kept in one place so that the
claimed set, technique names and not_applicable reasons stay consistent)."""
import json, subprocess

CLAIMED = {
 "C13": dict(
   text="Contracts on the three interval calculators (segment/family/slot arithmetic), on Truncate/CalPointCount/CalIntervalRatio, Interval.Type/Calculator/CalcSlotRange and the range types are discharged for all timestamps in 1973..2096 and all admitted intervals; partition/tiling/idempotence are lemmas over the contracts' specification functions; the implementations are shown to refine the IntervalCalculator interface contract.",
   note="Assumed: civil-calendar contract of package time in a fixed-offset zone (axioms cal_*, validated by a bounded run 1970..2100, listed as bounded stand-in); mathematical integers with explicit overflow/conversion obligations; input domain tsOK (1973-03..2096-10).",
   design="4/C13"),
}
TECH = "contract-based deductive verification: //@ contracts on the real functions, VCs generated from go/ssa by govc, discharged by z3/cvc5"

NOT_APPLICABLE = {
 "C10": "set-valued end-to-end property across query operators, three index stores, trie buckets and roaring bitmaps glued by closures; no contract within govc's reach expresses 'evaluate the predicate on every written series' (DESIGN.md section 5)",
 "C11": "end-to-end query semantics against a whole-history reference model over ~20 layers with worker pools and floating point; out of reach of per-function contracts (DESIGN.md section 5)",
 "C12": "metamorphic relation between different distributed runs; needs associativity of floating-point aggregation which is false bit-exactly and is abstracted here (DESIGN.md section 5)",
 "C20": "functional correctness of a LOUDS succinct trie for all key sets is a research-size proof; a bounded enumeration would be a different technique (DESIGN.md section 5)",
}
PENDING = {}  # properties planned but whose check is not built yet: listed not_applicable until then

def main():
    props=[json.loads(l)["id"] for l in open("/verif/properties.jsonl")]
    head=subprocess.run(["git","-C","/repo","log","--format=%H %s"],capture_output=True,text=True).stdout.splitlines()
    hooks=[l.split()[0] for l in head if l.split(" ",1)[1].startswith("verif:")]
    m={"version":1,
       "setup_cmd":"cd /verif/govc && GOFLAGS=-mod=mod GOPROXY=off GOSUMDB=off GOTOOLCHAIN=local go build -o /verif/bin/govc .",
       "hooks":{"guard":"verif","enable":"go build/test -tags verif; the contract files /repo/<pkg>/zz_verif_spec.go are comment-only and carry //go:build verif",
                "baseline_off_cmd":"cd /repo && GOFLAGS=-mod=mod GOPROXY=off GOSUMDB=off go test -json -vet=off -count=1 -timeout 25m ./...",
                "source_commits":hooks,"add_only":True},
       "engines":[{"name":"govc","path":"/verif/govc","serves_properties":sorted(CLAIMED),
                   "kind_free_text":"contract-based deductive verifier for Go written for this task: contracts as //@ comments in /repo/<pkg>/zz_verif_spec.go, verification conditions by symbolic execution of go/ssa (loop invariants, modular calls, frame conditions, lock invariants), discharged by racing z3 5.1 / z3 4.8 / cvc5 1.0; counterexamples replayed on the real code via go test -overlay"}],
       "checks":[], "not_applicable":[]}
    for p in props:
        if p in CLAIMED:
            c=CLAIMED[p]
            m["checks"].append({"property_id":p,"quick_cmd":f"/verif/check.sh {p} quick","thorough_cmd":f"/verif/check.sh {p} thorough",
              "evidence_file":f"/verif/evidence/{p}.json","replay_cmd_template":"cat {path}","engine":"govc",
              "level_claimed":{"category":"proof","text":c["text"],"design_ref":c["design"]},
              "level_note":c["note"],"technique":c.get("technique",TECH)})
        elif p in NOT_APPLICABLE:
            m["not_applicable"].append({"property_id":p,"reason":NOT_APPLICABLE[p]})
        else:
            m["not_applicable"].append({"property_id":p,"reason":PENDING.get(p,"contracts for this property are not built yet in this revision (planned, see DESIGN.md section 4); not claimed until its check discharges on the unchanged tree")})
    json.dump(m,open("/verif/MANIFEST.json","w"),indent=1)
main()
