#!/usr/bin/env python3
"""Generates /verif/MANIFEST.json from the table below (kept in one place so that the
claimed set, technique names and not_applicable reasons stay consistent)."""
import json, subprocess

CLAIMED = {
 "C13": dict(
   text="Contracts on the three interval calculators (segment/family/slot arithmetic), on Truncate/CalPointCount/CalIntervalRatio, Interval.Type/Calculator/CalcSlotRange and the range types are discharged for all timestamps in 1973..2096 and all admitted intervals; partition/tiling/idempotence are lemmas over the contracts' specification functions; the implementations are shown to refine the IntervalCalculator interface contract.",
   note="Assumed: civil-calendar contract of package time in a fixed-offset zone (axioms cal_*, validated by a bounded run 1970..2100, listed as bounded stand-in); mathematical integers with explicit overflow/conversion obligations; input domain tsOK (1973-03..2096-10).",
   design="4/C13"),
 "C05": dict(
   text="Contracts on queue.Put/alloc/persistMetaOfMessage/Get/validateSequence/initDataPageIndex and on the mapped-page and page-factory layer (byte-level view of mapped pages) are discharged for all states satisfying the representation invariant: dense sequences, read-back of the appended bytes, earlier index entries and earlier message bytes untouched by an append, the invariants 'every readable message lies below the write cursor' and 'the last entry ends highest' are inductive for Put, and the cursor restored by initDataPageIndex lies above every readable message; a crash invariant (index entry before appended sequence) is checked after every page store of persistMetaOfMessage; Put must be one atomic step w.r.t. the queue lock (obligation atomic.rwMutex).",
   note="Sequential contracts + lock discipline (lockset obligations, one critical section or a serializing lock per operation): interleavings inside one critical section are not modelled. Assumed: mmap'ed bytes behave as memory in program order (process crash, no torn stores), constructors NewMappedPage/NewFactory (function variables) satisfy their declared contracts, each interface has its single production implementation (cast), encoding/binary and go.uber.org/atomic contracts, sequences < 2^62. NewQueue and Close are not under contract.",
   design="4/C05"),
 "C06": dict(
   text="Contracts on consumerGroup.consume/Ack/SetConsumedSeq/SetSeq/Pending/IsEmpty, NewConsumerGroup, fanOutQueue.Sync (loop invariant over the group map with a visited set), queue.SetAcknowledgedSeq/SetAppendedSeq/GC and factory.TruncatePages/AcquirePage/GetPage are discharged: acknowledged <= consumed <= appended is preserved, consume hands out consumed+1 or nothing, out-of-range acks change nothing, the queue ack only moves forward, never beyond appended nor beyond the smallest group ack, GC unmaps only pages below the page of the acknowledged sequence, persisted positions equal the in-memory ones; implementations refine the interface contracts used at call sites.",
   note="Sequential contracts + lockset obligations (Ack writes the acknowledged position under the read lock: concurrent Acks are not excluded, declared rwrites). Assumed: same trusted base as C05; disk hypothesis cgDiskOK (persisted group meta satisfies ack <= consumed) for NewConsumerGroup; GetOrCreateConsumerGroup/StopConsumerGroup/Close not under contract.",
   design="4/C06"),
 "C19": dict(
   text="Contracts on the pipeline state machine (complete, completeStage, executeStage), the pipeline entry point and its two stage-completion closures, baseStage.Execute and its run closure, workerPool.execTask (including the path through a recovered panic) and LeafExecuteContext.SendResponse are discharged: the completion callback is invoked at most once under arbitrary interference on the two atomics (invariant cbCount==1 ==> completed, compare-and-swap token), it carries an error whenever a stage failed (precondition of the callback), children are registered before their parent completes, a stage run invokes exactly one handler, a panicking pooled task is routed once with a non-nil error to the panic handler which Execute sets to the stage's error handler, a panic reaching pipeline.Execute completes with an error, a leaf request produces at most one response.",
   note="Ghost call trace of function values (calls/lastnonnil); client code (Stage implementations, the completion callback, the transport) is assumed to meet its declared contract and not to re-enter the state machine; that failures of concurrently completing stages are visible to the thread that brings pending to zero rests on the ordering of the pending counter (assumed); stage ids (uuid) are assumed unique; the pool's dispatcher/worker goroutines and channels are not verified (a submitted task runs at most once is assumed); liveness (never none) is not decided.",
   design="4/C19"),
 "C18": dict(
   text="Contracts on replicaIndex (in range, never the first replica, definition ridx) with the lemma that ridx is injective in the replica number, Replica.Contain, ShardAssignment.AddReplica (no duplicate, appended last, other shards and replica lists untouched), replicaLeaderElector.ElectLeader (leader is the first alive replica of the shard; error exactly when the shard is unknown or has no alive replica), assignReplicasToStorageNodes / ShardAssignment / ModifyShardAssignment (exactly the requested shard ids are added, existing shards and their replica lists are untouched, requests with replica factor above the number of nodes or non-positive counts are refused and change nothing) are discharged for all inputs.",
   note="Attempted, not claimed (did not discharge within the quick timeout, listed in the contract notes): every new shard gets exactly replicaFactor distinct replicas and the first replica is storageNodeIDs[(shard+start) % n] (the per-function facts replicaIndex in range / not first / injective ARE proved; the inductive loop invariant combining them is not). The event handlers of the state manager (onNodeFailure/onNodeStartup/initializeShardState) are not under contract yet: the statement's 'online exactly when a replica is alive' is decided only through ElectLeader's contract. math.rand is not modelled (fixedStartIndex >= 0 is required). Mathematical integers with explicit overflow obligations; sizes bounded by 10^6.",
   design="4/C18"),
 "C14": dict(
   text="Bit stream: bit.Writer (WriteBit/WriteByte/WriteBits/Flush/Reset) and bit.Reader (ReadBit/ReadByte/ReadBits/Reset) are proved against a bit-sequence view (append exactly the given bits, earlier bits untouched; read exactly the next bits, error only at end of data), with machine-checked lemmas that a bit range determines its value (tok_unique, bitsval closed form). XOR value codec: XORDecoder.Next is proved to compute the specification function xorDec* of (stream, position, decoder state); XOREncoder.Write is proved to append bits on which that function yields exactly the written 64-bit pattern, consumes exactly the appended bits and leaves encoder and decoder windows equal - the round trip for every uint64 pattern and every window state. Fixed-width offset table: FixedOffsetEncoder.Write emits header and little-endian entries (loop invariant), FixedOffsetDecoder.Unmarshal/Get read back any table of that shape, Uint32MinWidth is minimal and sufficient (lemma width_fits_every_value). Scalar lemmas: zig-zag round trip both ways, high/low 16-bit split, delta bit packing wrap-around algebra and width. Reuse: Reset of bit writer/reader, XOR encoder/decoder, fixed-offset encoder, TSDDecoder.reset/Reset/ResetWithTimeRange and the snappy reader/writer wrappers leave no state of the previous block (also on the error path).",
   note="Not under contract (so not proved): TSDEncoder (two bytes.Buffer sinks, Bytes/flush glue), the sequence-level induction that composes the per-value round trip over a whole block, DeltaBitPackingEncoder.Bytes / Decoder.Reset/Next (stream.BufferWriter/Reader glue; only the scalar core and Add are proved), the roaring bitmap codec and the snappy algorithm itself (external libraries; only the reuse discipline of the wrappers is proved). Assumed: io.Writer appends what it is given (ghost view out/n; reliable sinks never fail), bytes.Buffer/binary/math/bits (clz/ctz characterised exactly)/snappy stream reset contracts, Go runtime maxAlloc bound on slice lengths, positions below 2^60 bits.",
   design="4/C14"),
 "C16": dict(
   text="Contracts on the broker batch are discharged for all batches: EvictOutOfTimeRange marks exactly the rows whose timestamp lies outside [now-behind, now+ahead] and changes nothing else (loop invariant); NewShardGroupIterator gives every row the jump hash of its own tags hash (below the shard count), only permutes rows and makes rows of a shard adjacent; HasRowsForNextShard and HasNextFamily hand out consecutive, non-empty, non-overlapping index ranges that end only when all rows are handed out (so every row is in exactly one shard group and one family group), a shard group holds one shard index, a family group's time is the family time of its first row and every row of the group lies in [familyTime, familyEnd] of that family, the group ends at the first row outside; timeRangeOfTimestamp/familyTimeOfTimestamp return the family range of the interval calculator (interface contract proved for day/month/year in C13) with the lemma k_range_is_family (the range contains exactly the timestamps of that family); isSameFamily's fast path is sound; tag de-duplication (tag.KeyValues.DeDup and BrokerRowProtoConverter.deDupTags) leaves keys strictly increasing, hence sorted and without a repeated key.",
   note="Assumed: flatbuffers accessors Timestamp/KvsHash are functions of the row's bytes (uninterpreted), jump.Hash is a function of (key, buckets) with range [0,buckets), sort.Sort permutes and orders (contract in contracts/external/sort.spec), one clock reading per call of EvictOutOfTimeRange, timestamps in tsOK (1973..2096). Not under contract: the flatbuffers building of MarshalProtoMetricV1 (that the hash is computed after de-duplication is not decided), validateMetric and the three wire-format parsers, XXHashOfKeyValues (string hashing), replica/channel_database.go; that a de-duplicated tag is one of the given tags is not claimed.",
   design="4/C16"),
}
TECH = "contract-based deductive verification: //@ contracts on the real functions, VCs generated from go/ssa by govc, discharged by z3/cvc5"

NOT_APPLICABLE = {
 "C10": "set-valued end-to-end property across query operators, three index stores, trie buckets and roaring bitmaps glued by closures; no contract within govc's reach expresses 'evaluate the predicate on every written series' (DESIGN.md section 5)",
 "C11": "end-to-end query semantics against a whole-history reference model over ~20 layers with worker pools and floating point; out of reach of per-function contracts (DESIGN.md section 5)",
 "C12": "metamorphic relation between different distributed runs; needs associativity of floating-point aggregation which is false bit-exactly and is abstracted here (DESIGN.md section 5)",
 "C20": "functional correctness of a LOUDS succinct trie for all key sets is a research-size proof; a bounded enumeration would be a different technique (DESIGN.md section 5)",
}
PENDING = {}  # properties planned but whose check is not built yet: listed not_applicable until then

def main():
    props=[json.loads(l)["id"] for l in open("/verif/properties.jsonl")]
    head=subprocess.run(["git","-C","/repo","log","--format=%H %s"],capture_output=True,text=True).stdout.splitlines()
    hooks=[l.split()[0] for l in head if l.split(" ",1)[1].startswith("verif:")]
    m={"version":1,
       "setup_cmd":"cd /verif/govc && GOFLAGS=-mod=mod GOPROXY=off GOSUMDB=off GOTOOLCHAIN=local go build -o /verif/bin/govc .",
       "hooks":{"guard":"verif","enable":"go build/test -tags verif; the contract files /repo/<pkg>/zz_verif_spec.go are comment-only and carry //go:build verif",
                "baseline_off_cmd":"cd /repo && GOFLAGS=-mod=mod GOPROXY=off GOSUMDB=off go test -json -vet=off -count=1 -timeout 25m ./...",
                "source_commits":hooks,"add_only":True},
       "engines":[{"name":"govc","path":"/verif/govc","serves_properties":sorted(CLAIMED),
                   "kind_free_text":"contract-based deductive verifier for Go written for this task: contracts as //@ comments in /repo/<pkg>/zz_verif_spec.go, verification conditions by symbolic execution of go/ssa (loop invariants, modular calls, frame conditions, lock invariants), discharged by racing z3 5.1 / z3 4.8 / cvc5 1.0; counterexamples replayed on the real code via go test -overlay"}],
       "checks":[], "not_applicable":[]}
    for p in props:
        if p in CLAIMED:
            c=CLAIMED[p]
            m["checks"].append({"property_id":p,"quick_cmd":f"/verif/check.sh {p} quick","thorough_cmd":f"/verif/check.sh {p} thorough",
              "evidence_file":f"/verif/evidence/{p}.json","replay_cmd_template":"cat {path}","engine":"govc",
              "level_claimed":{"category":"proof","text":c["text"],"design_ref":c["design"]},
              "level_note":c["note"],"technique":c.get("technique",TECH)})
        elif p in NOT_APPLICABLE:
            m["not_applicable"].append({"property_id":p,"reason":NOT_APPLICABLE[p]})
        else:
            m["not_applicable"].append({"property_id":p,"reason":PENDING.get(p,"contracts for this property are not built yet in this revision (planned, see DESIGN.md section 4); not claimed until its check discharges on the unchanged tree")})
    json.dump(m,open("/verif/MANIFEST.json","w"),indent=1)
main()
