#!/bin/sh
# usage: run_list.sh <out-file> <seed-dir>... : like run_mutants.sh for an explicit list of /verif/seeded/<id> directories
# (scratch copy of /repo's working tree per change, /repo itself never touched), $JOBS (default 2) in parallel.
OUT=$1; shift
JOBS=${JOBS:-2}
GOVC=${GOVC:-/verif/bin/govc}
: > $OUT
# entries: /verif/seeded/<id> directories or /verif/selftest/mutants/<prop>/<name>.diff files
one() {
  D=$1
  if [ -f "$D" ]; then d=$D; PROP=$(basename $(dirname $D)); else d=$D/patch.diff; PROP=$(basename $D | cut -d- -f1); fi
  W=$(mktemp -d /tmp/govc_mut.XXXXXX)
  (cd /repo && git ls-files -z | xargs -0 cp --parents -t "$W") 2>/dev/null
  if ! (cd "$W" && git init -q . >/dev/null 2>&1; git -C "$W" apply "$d" 2>/dev/null); then echo "SKIP(no-apply) $d" >> $OUT; rm -rf "$W"; return; fi
  O=$($GOVC check -repo "$W" -prop $PROP -no-evidence -replay-dir "$W/.replay" 2>&1)
  RC=$?
  rm -rf "$W"
  if [ $RC -eq 1 ]; then echo "CAUGHT $d: $(echo "$O" | grep -m1 VIOLATION | sed 's/.*obligation=//' | cut -c1-140)" >> $OUT; else echo "MISSED(rc=$RC) $d" >> $OUT; fi
}
N=0
for D in "$@"; do
  one "$D" &
  N=$((N+1))
  if [ $((N % JOBS)) -eq 0 ]; then wait; fi
done
wait
sort -o $OUT $OUT
