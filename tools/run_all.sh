#!/bin/sh
# usage: run_all.sh [tier]; runs every registered check, prints one line per property
T=${1:-quick}
for p in $(python3 -c "import json; print(' '.join(c['property_id'] for c in json.load(open('/verif/MANIFEST.json'))['checks']))"); do
  /verif/bin/govc check -prop $p -tier $T -no-evidence 2>&1 | grep "^property\|VIOLATION\|panic" | cut -c1-220
done
