#!/bin/sh
# usage: mkmut.sh <prop> <name> <file-relative-to-repo> <python-regex-old> <new>
# creates /verif/selftest/mutants/<prop>/<name>.diff from a one-substitution edit (first match)
PROP=$1; NAME=$2; FILE=$3; OLD=$4; NEW=$5
cd /repo || exit 2
python3 - "$FILE" "$OLD" "$NEW" <<'PY' || exit 3
import re,sys
p,old,new=sys.argv[1:4]
s=open(p).read()
s2,n=re.subn(old,new,s,count=1,flags=re.S)
if n!=1: sys.exit("pattern not found: "+old)
open(p,'w').write(s2)
PY
mkdir -p /verif/selftest/mutants/$PROP
git diff -- "$FILE" > /verif/selftest/mutants/$PROP/$NAME.diff
if ! GOFLAGS=-mod=mod GOPROXY=off go build ./$(dirname $FILE)/ ; then echo "mutant does not compile"; rm /verif/selftest/mutants/$PROP/$NAME.diff; git checkout -- "$FILE"; exit 4; fi
git checkout -- "$FILE"
echo created $PROP/$NAME
