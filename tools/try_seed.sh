#!/bin/sh
# usage: try_seed.sh <prop> <patch.diff> : runs the property's quick check on a scratch copy of /repo's working tree with the patch
PROP=$1; d=$2
W=$(mktemp -d /tmp/govc_mut.XXXXXX)
(cd /repo && git ls-files -z | xargs -0 cp --parents -t "$W") 2>/dev/null
# uncommitted spec files too
(cd /repo && git ls-files -z --others --exclude-standard | xargs -0 -r cp --parents -t "$W") 2>/dev/null
if ! (cd "$W" && git init -q . >/dev/null 2>&1; git -C "$W" apply "$d"); then echo "SKIP(no-apply) $d"; rm -rf "$W"; exit 3; fi
/verif/bin/govc check -repo "$W" -prop $PROP -no-evidence -replay-dir "$W/.replay" 2>&1 | grep "^property\|VIOLATION" | cut -c1-300
rm -rf "$W"
