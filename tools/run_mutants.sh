#!/bin/sh
# usage: run_mutants.sh <prop> : applies each selftest mutant of <prop> to /repo, runs the check, reverts.
# prints CAUGHT/MISSED per mutant
PROP=$1
for d in /verif/selftest/mutants/$PROP/*.diff /verif/seeded/$PROP*/patch.diff; do
  [ -f "$d" ] || continue
  if ! git -C /repo apply --check "$d" 2>/dev/null; then echo "SKIP(no-apply) $d"; continue; fi
  git -C /repo apply "$d"
  OUT=$(/verif/bin/govc check -prop $PROP -no-evidence 2>&1)
  RC=$?
  git -C /repo apply -R "$d"
  if [ $RC -eq 1 ]; then echo "CAUGHT $d: $(echo "$OUT" | grep -m1 VIOLATION | sed 's/.*obligation=//' | cut -c1-110)"; else echo "MISSED(rc=$RC) $d"; fi
done
