#!/bin/sh
# usage: run_mutants.sh <prop> : applies each selftest mutant / seeded change of <prop> to a scratch copy of
# /repo's working tree (under mktemp -d, removed afterwards - /repo itself is never touched), runs the
# property's check on the copy, prints CAUGHT/MISSED per change. Up to $JOBS (default 4) changes in parallel.
PROP=$1
JOBS=${JOBS:-4}
one() {
  d=$1
  W=$(mktemp -d /tmp/govc_mut.XXXXXX)
  (cd /repo && git ls-files -z | xargs -0 cp --parents -t "$W") 2>/dev/null
  if ! (cd "$W" && git init -q . >/dev/null 2>&1; git -C "$W" apply "$d" 2>/dev/null); then echo "SKIP(no-apply) $d"; rm -rf "$W"; return; fi
  OUT=$(/verif/bin/govc check -repo "$W" -prop $PROP -no-evidence -replay-dir "$W/.replay" 2>&1)
  RC=$?
  rm -rf "$W"
  if [ $RC -eq 1 ]; then echo "CAUGHT $d: $(echo "$OUT" | grep -m1 VIOLATION | sed 's/.*obligation=//' | cut -c1-140)"; else echo "MISSED(rc=$RC) $d"; fi
}
N=0
for d in /verif/selftest/mutants/$PROP/*.diff /verif/seeded/$PROP*/patch.diff; do
  [ -f "$d" ] || continue
  one "$d" &
  N=$((N+1))
  if [ $((N % JOBS)) -eq 0 ]; then wait; fi
done
wait
